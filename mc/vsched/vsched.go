// Package vsched is a controlled (cooperative, baton-passing) scheduler plus
// drop-in replacements for the parts of package sync that krotik/ecal uses.
//
// The instrumenter rewrites `import "sync"` in the ecal packages to this
// package, so every lock / wait / signal / wait-group operation of the real
// code becomes a scheduling point owned by the explorer (explore.go).
//
// Outside of a controlled execution (cur == nil) every shim simply forwards to
// the real sync primitive it embeds ("pass-through mode"); that mode is used by
// package initialisers, by sequential drivers and by the free-running -race
// companion runs.
package vsched

import (
	"fmt"
	"runtime"
	"sort"
	"strings"
	"sync"
	"time"
)

// Locker is sync.Locker.
type Locker = sync.Locker

// The rest of package sync passes through unchanged, so that a tree that starts
// to use it still builds under the overlay: Pool and Map synchronise internally
// (sync.Map: its operations are atomic for the scheduler and are NOT scheduling
// points - accesses to the variable that holds it are still Touch points when it
// is package-level), the Once helpers run their function at most once.
type Map = sync.Map

// Pool is a deterministic model of sync.Pool: the real one keeps per-processor
// caches, so what Get returns depends on which OS thread a goroutine happens to
// run on - nondeterminism the scheduler would not own. The model is one legal
// behaviour of sync.Pool, and the one that shares most: Get returns the most
// recently Put item (else New()), nothing is ever dropped. Get and Put are
// scheduling points when two threads are live, and Put(x) happens before the
// Get that returns x.
type Pool struct {
	noCopy noCopy
	New    func() interface{}
	mu     sync.Mutex
	items  []interface{}
	vc     vclock
	owner  *Exec // the execution the items belong to: nothing is carried over to the next one
}

func (p *Pool) fresh() {
	if p.owner != cur {
		p.owner, p.items, p.vc = cur, nil, nil
	}
}

type noCopy struct{}

func (*noCopy) Lock()   {}
func (*noCopy) Unlock() {}

func (p *Pool) point() *thread {
	e := cur
	if e == nil || e.aborting {
		return nil
	}
	t := e.helperOwner()
	if t != nil {
		return t
	}
	if !e.cfg.NoTouchPoints && len(e.threads)-e.finishedN >= 2 {
		e.vmu.Lock()
		a := ptrOf(p)
		vs := e.touched[a]
		if vs == nil {
			vs = &varState{id: e.newObj(), pin: p}
			e.touched[a] = vs
		}
		e.vmu.Unlock()
		e.point(op{kind: opTouch, obj: vs.id})
	}
	return e.running
}

// Get returns the most recently Put item, or New().
func (p *Pool) Get() interface{} {
	t := p.point()
	p.mu.Lock()
	p.fresh()
	var x interface{}
	ok := false
	if n := len(p.items); n > 0 {
		x, ok = p.items[n-1], true
		p.items = p.items[:n-1]
		if t != nil {
			cur.vmu.Lock()
			t.vc.join(p.vc)
			cur.vmu.Unlock()
		}
	}
	p.mu.Unlock()
	if !ok && p.New != nil {
		x = p.New()
	}
	return x
}

// Put adds x to the pool.
func (p *Pool) Put(x interface{}) {
	if x == nil {
		return
	}
	t := p.point()
	p.mu.Lock()
	p.fresh()
	p.items = append(p.items, x)
	if t != nil {
		cur.vmu.Lock()
		p.vc.join(t.vc)
		t.vc.tick(t.id)
		cur.vmu.Unlock()
	}
	p.mu.Unlock()
}

func OnceFunc(f func()) func() { return sync.OnceFunc(f) }

// ---------------------------------------------------------------------------
// execution state

type opKind uint8

const (
	opNone opKind = iota
	opStart
	opLock
	opRLock
	opWAnnounce
	opWLock
	opCondWait
	opCondReacq
	opSignal
	opBroadcast
	opWgWait
	opSleep
	opTouch
	opYield
	opRelease // unlock / done; only a point when PointAtRelease is set
	opUser
	opQuiesce
)

var kindNames = [...]string{"none", "start", "Lock", "RLock", "WAnnounce", "WLock", "Cond.Wait",
	"Cond.reacquire", "Signal", "Broadcast", "WaitGroup.Wait", "Sleep", "Touch", "Yield", "release", "user", "Quiesce"}

func (k opKind) String() string { return kindNames[k] }

type op struct {
	kind opKind
	m    *Mutex
	rw   *RWMutex
	c    *Cond
	wg   *WaitGroup
	obj  int // object id (for traces / dependency)
}

type thread struct {
	id        int
	name      string
	wake      chan struct{}
	finished  bool
	started   bool
	pend      op
	site      uintptr
	sleepStep int
	notified  bool
	vc        vclock
	polling   bool // granted a Sleep since the last progress step
	lastRun   int  // step at which the thread was last scheduled (fair default order)
	spawned   int  // number of children spawned (for naming)
}

// Point is one recorded scheduling decision.
type Point struct {
	Chosen   int    // thread id that was scheduled
	Alts     int    // number of alternatives (enabled threads or data values)
	Free     bool   // alternatives cost no preemption
	RunEn    bool   // the previously running thread was still enabled
	Kind     opKind // operation of the chosen thread
	Obj      int
	Site     uintptr
	Enabled  []int // thread ids in canonical order (nil for data choices)
	Data     bool
	TimePass bool
}

// Outcome kinds of one execution.
const (
	OutOK        = "ok"
	OutDeadlock  = "deadlock"
	OutLivelock  = "livelock"
	OutHorizon   = "horizon"
	OutPanic     = "panic"
	OutDiverged  = "diverged"
	OutFault     = "fault"
	OutStuck     = "stuck"
	defaultHoriz = 20000
	livelockMax  = 200
)

// Exec is one controlled execution.
type Exec struct {
	epoch      uint64
	threads    []*thread
	running    *thread
	prefix     []int
	Choices    []int
	Points     []Point
	nsteps     int
	aborting   bool
	Outcome    string
	Detail     string
	PanicVal   interface{}
	PanicStk   string
	Blocked    []string // description of blocked threads at deadlock/livelock
	Faults     []string
	Races      []string
	RaceDetail []string // the same races with line numbers (for messages, not for keys)
	raceSeen   map[string]bool
	nextObj    int
	done       chan struct{}
	join       sync.WaitGroup
	horizon    int
	pollRuns   int
	stateSet   map[uint64]struct{}
	touched    map[uintptr]*varState
	cfg        *Config
	lastBeat   time.Time
	Log        []string
	userData   interface{}
	finishedN  int
	hmu        sync.Mutex
	helpers    map[uint64]*thread
	vmu        sync.Mutex // protects touched/race state against helper goroutines
}

// Config tunes the scheduler.
type Config struct {
	PointAtRelease bool // also make Unlock/Done scheduling points
	Horizon        int
	NoTouchPoints  bool // Touch only feeds the race check, is not a point
	NoFieldNotes   bool // ignore Access (field accesses of lock-carrying structs)
	States         map[uint64]struct{}
}

var (
	cur      *Exec
	epochCtr uint64
)

// Active reports whether a controlled execution is in progress.
func Active() bool { return cur != nil }

// Current returns the running execution (nil in pass-through mode).
func Current() *Exec { return cur }

type abortSentinel struct{}

func goexit() {
	runtime.Goexit()
}

// Run performs one controlled execution of body following the choice prefix.
func Run(prefix []int, cfg *Config, body func()) *Exec {
	if cur != nil {
		panic("vsched: nested Run")
	}
	if cfg == nil {
		cfg = &Config{}
	}
	epochCtr++
	e := &Exec{epoch: epochCtr, prefix: prefix, done: make(chan struct{}), horizon: cfg.Horizon, cfg: cfg,
		touched: map[uintptr]*varState{}, Outcome: OutOK, stateSet: cfg.States}
	if e.horizon == 0 {
		e.horizon = defaultHoriz
	}
	cur = e
	t := e.newThread("main", nil)
	t.started = true
	e.running = t
	e.join.Add(1)
	go e.threadMain(t, body)
	t.wake <- struct{}{}
	// watchdog: a baton holder that makes no shim call for a long time
	tick := time.NewTicker(2 * time.Second)
	defer tick.Stop()
	e.lastBeat = time.Now()
	last := -1
loop:
	for {
		select {
		case <-e.done:
			break loop
		case <-tick.C:
			if e.nsteps == last && time.Since(e.lastBeat) > 30*time.Second {
				e.Outcome = OutStuck
				e.Detail = "no scheduling point for 30s (controlled thread blocked outside the scheduler)"
				e.aborting = true
				for _, th := range e.threads {
					select {
					case th.wake <- struct{}{}:
					default:
					}
				}
				break loop
			}
			if e.nsteps != last {
				e.lastBeat = time.Now()
			}
			last = e.nsteps
		}
	}
	// join every goroutine of this execution before the next one starts
	joined := make(chan struct{})
	go func() { e.join.Wait(); close(joined) }()
	select {
	case <-joined:
	case <-time.After(20 * time.Second):
		if e.Outcome == OutOK {
			e.Outcome = OutStuck
		}
		e.Detail += " [goroutines of the execution did not exit]"
	}
	cur = nil
	return e
}

func (e *Exec) newThread(name string, parent *thread) *thread {
	t := &thread{id: len(e.threads), name: name, wake: make(chan struct{}, 1)}
	t.vc = make(vclock, t.id+1)
	if parent != nil {
		t.vc.join(parent.vc)
		parent.vc.tick(parent.id)
	}
	t.vc.tick(t.id)
	t.pend = op{kind: opStart}
	e.threads = append(e.threads, t)
	return t
}

func (e *Exec) threadMain(t *thread, body func()) {
	defer e.join.Done()
	<-t.wake
	if e.aborting {
		return
	}
	normal := false
	defer func() {
		if e.aborting {
			// nothing to schedule any more
			return
		}
		if !normal {
			if r := recover(); r != nil {
				buf := make([]byte, 16384)
				buf = buf[:runtime.Stack(buf, false)]
				e.PanicVal = r
				e.PanicStk = string(buf)
				e.abort(OutPanic, fmt.Sprintf("thread %d (%s): %v", t.id, t.name, r))
				return
			}
			// runtime.Goexit from user code: treat as thread end
		}
		t.finished = true
		e.finishedN++
		e.schedule(t, true)
	}()
	body()
	normal = true
}

// abort ends the execution: every parked thread is resumed in abort mode in
// which any shim call ends the calling goroutine.
func (e *Exec) abort(outcome, detail string) {
	if e.aborting {
		return
	}
	e.Outcome = outcome
	e.Detail = detail
	e.aborting = true
	for _, th := range e.threads {
		select {
		case th.wake <- struct{}{}:
		default:
		}
	}
	close(e.done)
}

func (e *Exec) describeBlocked() []string {
	var out []string
	for _, t := range e.threads {
		if t.finished {
			continue
		}
		out = append(out, fmt.Sprintf("thread %d (%s) at %s in %s", t.id, t.name, t.pend.kind, SiteFunc(t.site)))
	}
	return out
}

// BlockedKey is a stable description of where threads were blocked (function
// names without line numbers), used to key known findings.
func (e *Exec) BlockedKey() string {
	seen := map[string]bool{}
	var out []string
	for _, t := range e.threads {
		if t.finished {
			continue
		}
		k := fmt.Sprintf("%s@%s", t.pend.kind, SiteFuncShort(t.site))
		if !seen[k] {
			seen[k] = true
			out = append(out, k)
		}
	}
	sort.Strings(out)
	return strings.Join(out, ",")
}

func (e *Exec) enabled(t *thread) bool {
	if t.finished {
		return false
	}
	p := &t.pend
	switch p.kind {
	case opLock:
		return !p.m.locked
	case opRLock:
		return !p.rw.writer && p.rw.wwait == 0
	case opWLock:
		return !p.rw.writer && p.rw.readers == 0
	case opCondReacq:
		if !t.notified {
			return false
		}
		switch l := p.c.L.(type) {
		case *Mutex:
			return !l.locked
		case *RWMutex:
			return !l.writer && l.readers == 0
		}
		return true
	case opWgWait:
		return p.wg.n == 0
	case opSleep:
		return e.nsteps > t.sleepStep
	case opNone, opQuiesce:
		return false
	}
	return true
}

// schedule is called by the running thread t with t.pend set (or with
// finishing == true when t has ended). It returns when t has been chosen.
func (e *Exec) schedule(t *thread, finishing bool) {
	if e.aborting {
		if finishing {
			return
		}
		goexit()
	}
	if e.running != t {
		// A shim call from a goroutine that does not hold the baton. This
		// happens only for helper goroutines of the running thread.
		e.Faults = append(e.Faults, fmt.Sprintf("shim call from non-running thread %d (running %d)", t.id, e.running.id))
	}
	e.nsteps++
	if e.nsteps > e.horizon {
		e.Blocked = e.describeBlocked()
		e.abort(OutHorizon, fmt.Sprintf("more than %d scheduling points", e.horizon))
		if finishing {
			return
		}
		goexit()
	}
	// enabled set in canonical order: running thread first, then ascending id
	var en []*thread
	runEn := false
	if !finishing && e.enabled(t) {
		en = append(en, t)
		runEn = true
	}
	first := len(en)
	for _, o := range e.threads {
		if o != t && e.enabled(o) {
			en = append(en, o)
		}
	}
	// fair default continuation: among the other threads the least recently
	// scheduled one comes first (ties by id), so that no enabled thread is
	// starved by the default choice
	if rest := en[first:]; len(rest) > 1 {
		sort.SliceStable(rest, func(i, j int) bool { return rest[i].lastRun < rest[j].lastRun })
	}
	timePass := false
	if len(en) == 0 {
		// time passes: sleepers become enabled, longest sleeper first
		for _, o := range e.threads {
			if !o.finished && o.pend.kind == opSleep {
				en = append(en, o)
			}
		}
		sort.SliceStable(en, func(i, j int) bool { return en[i].sleepStep < en[j].sleepStep })
		timePass = len(en) > 0
		if len(en) == 0 {
			// nothing else can move: a thread waiting for quiescence continues
			for _, o := range e.threads {
				if !o.finished && o.pend.kind == opQuiesce {
					en = append(en, o)
					break
				}
			}
		}
	}
	if len(en) == 0 {
		if e.finishedN == len(e.threads) {
			e.aborting = true // nothing left; makes stray shim calls harmless
			close(e.done)
			return
		}
		e.Blocked = e.describeBlocked()
		e.abort(OutDeadlock, strings.Join(e.Blocked, "; "))
		if finishing {
			return
		}
		goexit()
	}
	idx := 0
	pos := len(e.Choices)
	if pos < len(e.prefix) {
		idx = e.prefix[pos]
		if idx >= len(en) {
			e.abort(OutDiverged, fmt.Sprintf("replay divergence at point %d: choice %d of %d", pos, idx, len(en)))
			if finishing {
				return
			}
			goexit()
		}
	}
	c := en[idx]
	ids := make([]int, len(en))
	for i, o := range en {
		ids[i] = o.id
	}
	e.Choices = append(e.Choices, idx)
	e.Points = append(e.Points, Point{Chosen: c.id, Alts: len(en), Free: !runEn, RunEn: runEn,
		Kind: c.pend.kind, Obj: c.pend.obj, Site: c.site, Enabled: ids, TimePass: timePass})
	if e.stateSet != nil {
		e.stateSet[e.stateHash(en)] = struct{}{}
	}
	// livelock accounting
	if c.pend.kind == opSleep {
		c.polling = true
		e.pollRuns++
		if e.pollRuns > livelockMax {
			e.Blocked = e.describeBlocked()
			e.abort(OutLivelock, "only polling threads ran for "+fmt.Sprint(livelockMax)+" sleeps: "+strings.Join(e.Blocked, "; "))
			if finishing {
				return
			}
			goexit()
		}
	} else if !c.polling {
		e.pollRuns = 0
		for _, o := range e.threads {
			o.polling = false
		}
	}
	c.lastRun = e.nsteps
	e.apply(c)
	if c == t {
		return
	}
	e.running = c
	c.wake <- struct{}{}
	if finishing {
		return
	}
	<-t.wake
	if e.aborting {
		goexit()
	}
}

// apply performs the effect of c's pending operation; c has been chosen.
func (e *Exec) apply(c *thread) {
	p := c.pend
	switch p.kind {
	case opLock:
		p.m.locked = true
		p.m.owner = c
		c.vc.join(p.m.vc)
	case opRLock:
		p.rw.readers++
		c.vc.join(p.rw.vc)
	case opWAnnounce:
		p.rw.wwait++
	case opWLock:
		p.rw.wwait--
		p.rw.writer = true
		p.rw.owner = c
		c.vc.join(p.rw.vc)
		c.vc.join(p.rw.rvc)
	case opCondWait:
		// release L and join the wait list atomically
		e.releaseLocker(c, p.c.L)
		p.c.waiters = append(p.c.waiters, c)
		c.notified = false
	case opCondReacq:
		e.acquireLocker(c, p.c.L)
	case opSignal:
		if len(p.c.waiters) > 0 {
			w := p.c.waiters[0]
			p.c.waiters = p.c.waiters[1:]
			w.notified = true
			w.vc.join(c.vc)
		}
		c.vc.tick(c.id)
	case opBroadcast:
		for _, w := range p.c.waiters {
			w.notified = true
			w.vc.join(c.vc)
		}
		p.c.waiters = p.c.waiters[:0]
		c.vc.tick(c.id)
	case opWgWait:
		c.vc.join(p.wg.vc)
	case opStart:
		c.started = true
	}
	c.pend = op{}
}

func (e *Exec) releaseLocker(t *thread, l Locker) {
	switch m := l.(type) {
	case *Mutex:
		m.check(e)
		if !m.locked {
			e.Faults = append(e.Faults, "Cond.Wait with unlocked mutex")
		}
		m.locked = false
		m.owner = nil
		m.vc = m.vc.copyFrom(t.vc)
		t.vc.tick(t.id)
	case *RWMutex:
		m.check(e)
		m.writer = false
		m.vc = m.vc.copyFrom(t.vc)
		t.vc.tick(t.id)
	default:
		panic("vsched: Cond with unsupported Locker type")
	}
}

func (e *Exec) acquireLocker(t *thread, l Locker) {
	switch m := l.(type) {
	case *Mutex:
		m.locked = true
		m.owner = t
		t.vc.join(m.vc)
	case *RWMutex:
		m.writer = true
		m.owner = t
		t.vc.join(m.vc)
		t.vc.join(m.rvc)
	}
}

func (e *Exec) stateHash(en []*thread) uint64 {
	h := uint64(1469598103934665603)
	mix := func(v uint64) {
		h ^= v
		h *= 1099511628211
	}
	for _, t := range e.threads {
		if t.finished {
			mix(0xffff)
			continue
		}
		mix(uint64(t.site))
		mix(uint64(t.pend.kind))
	}
	mix(0xabcdef)
	for _, t := range en {
		mix(uint64(t.id))
	}
	return h
}

// point is the entry used by all shims: the calling thread announces its next
// operation and yields to the scheduler.
func (e *Exec) point(o op) {
	t := e.running
	var pcs [1]uintptr
	runtime.Callers(3, pcs[:])
	t.site = pcs[0]
	t.pend = o
	e.schedule(t, false)
}

func (e *Exec) newObj() int {
	e.nextObj++
	return e.nextObj
}

// HeldLocks returns a description of every shim mutex currently held by the
// given thread id (used by C16: "never leaves a debugger lock held").
func (e *Exec) addFault(s string) { e.Faults = append(e.Faults, s) }

// ---------------------------------------------------------------------------
// thread API

// Go starts a controlled thread (replacement for the go statement).
func Go(f func()) {
	e := cur
	if e == nil {
		go f()
		return
	}
	if e.aborting {
		goexit()
	}
	p := e.running
	p.spawned++
	t := e.newThread(fmt.Sprintf("%s.%d", p.name, p.spawned), p)
	var pcs [1]uintptr
	runtime.Callers(2, pcs[:])
	t.site = pcs[0]
	e.join.Add(1)
	go e.threadMain(t, f)
}

// GoNamed is Go with an explicit thread name (drivers).
func GoNamed(name string, f func()) {
	e := cur
	if e == nil {
		go f()
		return
	}
	if e.aborting {
		goexit()
	}
	p := e.running
	p.spawned++
	t := e.newThread(name, p)
	e.join.Add(1)
	go e.threadMain(t, f)
}

// GoHelper starts a free-running helper goroutine that belongs to the running
// controlled thread (the lexer goroutine of a Parse call: a single-producer /
// single-consumer pipe private to one call). The helper is not scheduled, but
// its accesses to instrumented variables are attributed to its owner thread
// for the race check.
func GoHelper(f func()) {
	e := cur
	if e == nil {
		go f()
		return
	}
	if e.aborting {
		goexit()
	}
	owner := e.running
	go func() {
		// not joined at the end of the execution: a lexer whose parse failed
		// stays blocked on its channel for ever (C07) and never runs again
		id := goid()
		e.hmu.Lock()
		if e.helpers == nil {
			e.helpers = map[uint64]*thread{}
		}
		e.helpers[id] = owner
		e.hmu.Unlock()
		defer func() {
			e.hmu.Lock()
			delete(e.helpers, id)
			e.hmu.Unlock()
		}()
		f()
	}()
}

func goid() uint64 {
	var buf [64]byte
	n := runtime.Stack(buf[:], false)
	// "goroutine 123 ["
	var id uint64
	for _, c := range buf[10:n] {
		if c < '0' || c > '9' {
			break
		}
		id = id*10 + uint64(c-'0')
	}
	return id
}

// helperOwner returns the owner thread if the calling goroutine is a helper.
func (e *Exec) helperOwner() *thread {
	e.hmu.Lock()
	defer e.hmu.Unlock()
	if len(e.helpers) == 0 {
		return nil
	}
	return e.helpers[goid()]
}

// ThreadID returns the id of the running controlled thread (-1 outside).
func ThreadID() int {
	if e := cur; e != nil && e.running != nil {
		return e.running.id
	}
	return -1
}

// Sleep is the replacement of time.Sleep: a visible, yielding wait.
func Sleep(d time.Duration) {
	e := cur
	if e == nil {
		time.Sleep(d)
		return
	}
	if e.aborting {
		goexit()
	}
	e.running.sleepStep = e.nsteps + 1 // the schedule call below counts one step
	e.point(op{kind: opSleep})
}

// Quiesce blocks the calling (driver) thread until no other thread can move:
// everything else is finished, blocked or itself waiting for quiescence.
func Quiesce() {
	e := cur
	if e == nil {
		return
	}
	if e.aborting {
		goexit()
	}
	e.point(op{kind: opQuiesce})
}

// Yield is an explicit scheduling point for harness code (e.g. harness stdlib
// functions called from ECAL code).
func Yield() {
	e := cur
	if e == nil {
		return
	}
	if e.aborting {
		goexit()
	}
	e.point(op{kind: opYield})
}

var logicalNow = time.Unix(1600000000, 0)

// Now is the replacement of time.Now: a logical clock that advances with the
// number of scheduling steps.
func Now() time.Time {
	e := cur
	if e == nil {
		return time.Now()
	}
	return logicalNow.Add(time.Duration(e.nsteps) * time.Millisecond)
}

// Intn is the replacement of rand.Intn: an explored data choice.
func Intn(n int) int {
	e := cur
	if e == nil || n <= 1 {
		return 0
	}
	if e.aborting {
		goexit()
	}
	return e.choose(n)
}

// Float64 replaces rand.Float64 with a constant.
func Float64() float64 { return 0.5 }

func (e *Exec) choose(n int) int {
	idx := 0
	pos := len(e.Choices)
	if pos < len(e.prefix) {
		idx = e.prefix[pos]
		if idx >= n {
			e.abort(OutDiverged, fmt.Sprintf("replay divergence at data point %d: choice %d of %d", pos, idx, n))
			goexit()
		}
	}
	var pcs [1]uintptr
	runtime.Callers(3, pcs[:])
	e.Choices = append(e.Choices, idx)
	e.Points = append(e.Points, Point{Chosen: e.running.id, Alts: n, Free: true, Data: true, Kind: opUser, Site: pcs[0]})
	return idx
}

// Logf appends to the execution's log (drivers and oracles).
func Logf(format string, a ...interface{}) {
	if e := cur; e != nil {
		e.Log = append(e.Log, fmt.Sprintf(format, a...))
	}
}

// ---------------------------------------------------------------------------
// Mutex

type Mutex struct {
	real   sync.Mutex
	epoch  uint64
	id     int
	locked bool
	owner  *thread
	vc     vclock
}

func (m *Mutex) check(e *Exec) {
	if m.epoch != e.epoch {
		m.epoch = e.epoch
		m.id = e.newObj()
		m.locked = false
		m.owner = nil
		m.vc = nil
	}
}

func (m *Mutex) Lock() {
	e := cur
	if e == nil {
		m.real.Lock()
		return
	}
	if e.aborting {
		goexit()
	}
	m.check(e)
	e.point(op{kind: opLock, m: m, obj: m.id})
}

func (m *Mutex) Unlock() {
	e := cur
	if e == nil {
		m.real.Unlock()
		return
	}
	if e.aborting {
		goexit()
	}
	m.check(e)
	if e.cfg.PointAtRelease {
		e.point(op{kind: opRelease, obj: m.id})
	}
	if !m.locked {
		e.Faults = append(e.Faults, "unlock of unlocked mutex")
		e.abort(OutFault, "sync: unlock of unlocked mutex in "+SiteFunc(callerPC(2)))
		goexit()
	}
	t := e.running
	m.locked = false
	m.owner = nil
	m.vc = m.vc.copyFrom(t.vc)
	t.vc.tick(t.id)
}

// TryLock is provided for completeness.
func (m *Mutex) TryLock() bool {
	e := cur
	if e == nil {
		return m.real.TryLock()
	}
	m.check(e)
	if m.locked {
		return false
	}
	m.locked = true
	m.owner = e.running
	e.running.vc.join(m.vc)
	return true
}

// IsLocked reports the controlled state (harness oracles only).
func (m *Mutex) IsLocked() bool {
	e := cur
	if e == nil {
		return false
	}
	m.check(e)
	return m.locked
}

// ---------------------------------------------------------------------------
// RWMutex

type RWMutex struct {
	real    sync.RWMutex
	epoch   uint64
	id      int
	writer  bool
	owner   *thread
	readers int
	wwait   int
	vc      vclock // released by writers
	rvc     vclock // released by readers
}

func (m *RWMutex) check(e *Exec) {
	if m.epoch != e.epoch {
		m.epoch = e.epoch
		m.id = e.newObj()
		m.writer = false
		m.owner = nil
		m.readers = 0
		m.wwait = 0
		m.vc = nil
		m.rvc = nil
	}
}

func (m *RWMutex) Lock() {
	e := cur
	if e == nil {
		m.real.Lock()
		return
	}
	if e.aborting {
		goexit()
	}
	m.check(e)
	if m.writer || m.readers > 0 {
		// announce first, as the runtime does: new readers are held back
		e.point(op{kind: opWAnnounce, rw: m, obj: m.id})
		e.point(op{kind: opWLock, rw: m, obj: m.id})
		return
	}
	m.wwait++
	e.point(op{kind: opWLock, rw: m, obj: m.id})
}

func (m *RWMutex) Unlock() {
	e := cur
	if e == nil {
		m.real.Unlock()
		return
	}
	if e.aborting {
		goexit()
	}
	m.check(e)
	if e.cfg.PointAtRelease {
		e.point(op{kind: opRelease, obj: m.id})
	}
	if !m.writer {
		e.abort(OutFault, "sync: Unlock of unlocked RWMutex in "+SiteFunc(callerPC(2)))
		goexit()
	}
	t := e.running
	m.writer = false
	m.owner = nil
	m.vc = m.vc.copyFrom(t.vc)
	t.vc.tick(t.id)
}

func (m *RWMutex) RLock() {
	e := cur
	if e == nil {
		m.real.RLock()
		return
	}
	if e.aborting {
		goexit()
	}
	m.check(e)
	e.point(op{kind: opRLock, rw: m, obj: m.id})
}

func (m *RWMutex) RUnlock() {
	e := cur
	if e == nil {
		m.real.RUnlock()
		return
	}
	if e.aborting {
		goexit()
	}
	m.check(e)
	if e.cfg.PointAtRelease {
		e.point(op{kind: opRelease, obj: m.id})
	}
	if m.readers <= 0 {
		e.abort(OutFault, "sync: RUnlock of unlocked RWMutex in "+SiteFunc(callerPC(2)))
		goexit()
	}
	t := e.running
	m.readers--
	if m.rvc == nil {
		m.rvc = vclock{}
	}
	m.rvc.join(t.vc)
	t.vc.tick(t.id)
}

// RLocker mirrors sync.RWMutex.RLocker.
func (m *RWMutex) RLocker() Locker { return (*rlocker)(m) }

type rlocker RWMutex

func (r *rlocker) Lock()   { (*RWMutex)(r).RLock() }
func (r *rlocker) Unlock() { (*RWMutex)(r).RUnlock() }

// HeldInfo describes the controlled state of the lock (harness oracles).
func (m *RWMutex) HeldInfo() (writer bool, readers int) {
	e := cur
	if e == nil {
		return false, 0
	}
	m.check(e)
	return m.writer, m.readers
}

// ---------------------------------------------------------------------------
// Cond

type Cond struct {
	L       Locker
	realC   *sync.Cond
	realMu  sync.Mutex
	epoch   uint64
	id      int
	waiters []*thread
}

func NewCond(l Locker) *Cond { return &Cond{L: l} }

func (c *Cond) real() *sync.Cond {
	c.realMu.Lock()
	defer c.realMu.Unlock()
	if c.realC == nil {
		c.realC = sync.NewCond(c.L)
	}
	return c.realC
}

func (c *Cond) check(e *Exec) {
	if c.epoch != e.epoch {
		c.epoch = e.epoch
		c.id = e.newObj()
		c.waiters = nil
	}
}

func (c *Cond) Wait() {
	e := cur
	if e == nil {
		c.real().Wait()
		return
	}
	if e.aborting {
		goexit()
	}
	c.check(e)
	e.point(op{kind: opCondWait, c: c, obj: c.id})
	e.point(op{kind: opCondReacq, c: c, obj: c.id})
}

func (c *Cond) Signal() {
	e := cur
	if e == nil {
		c.real().Signal()
		return
	}
	if e.aborting {
		goexit()
	}
	c.check(e)
	e.point(op{kind: opSignal, c: c, obj: c.id})
}

func (c *Cond) Broadcast() {
	e := cur
	if e == nil {
		c.real().Broadcast()
		return
	}
	if e.aborting {
		goexit()
	}
	c.check(e)
	e.point(op{kind: opBroadcast, c: c, obj: c.id})
}

// Waiters reports how many threads are parked in Wait (oracles).
func (c *Cond) Waiters() int {
	e := cur
	if e == nil {
		return 0
	}
	c.check(e)
	return len(c.waiters)
}

// ---------------------------------------------------------------------------
// WaitGroup

type WaitGroup struct {
	real  sync.WaitGroup
	epoch uint64
	id    int
	n     int
	vc    vclock
}

func (w *WaitGroup) check(e *Exec) {
	if w.epoch != e.epoch {
		w.epoch = e.epoch
		w.id = e.newObj()
		w.n = 0
		w.vc = nil
	}
}

func (w *WaitGroup) Add(d int) {
	e := cur
	if e == nil {
		w.real.Add(d)
		return
	}
	if e.aborting {
		goexit()
	}
	w.check(e)
	if e.cfg.PointAtRelease && d < 0 {
		e.point(op{kind: opRelease, obj: w.id})
	}
	w.n += d
	t := e.running
	if d < 0 {
		if w.vc == nil {
			w.vc = vclock{}
		}
		w.vc.join(t.vc)
		t.vc.tick(t.id)
	}
	if w.n < 0 {
		e.abort(OutFault, "sync: negative WaitGroup counter in "+SiteFunc(callerPC(2)))
		goexit()
	}
}

func (w *WaitGroup) Done() { w.Add(-1) }

func (w *WaitGroup) Wait() {
	e := cur
	if e == nil {
		w.real.Wait()
		return
	}
	if e.aborting {
		goexit()
	}
	w.check(e)
	e.point(op{kind: opWgWait, wg: w, obj: w.id})
}

// ---------------------------------------------------------------------------
// Once

type Once struct {
	real sync.Once
	m    Mutex
	done bool
	ep   uint64
}

func (o *Once) Do(f func()) {
	e := cur
	if e == nil {
		o.real.Do(f)
		return
	}
	o.m.Lock()
	defer o.m.Unlock()
	if o.ep != e.epoch {
		o.ep = e.epoch
		o.done = false
	}
	if !o.done {
		o.done = true
		f()
	}
}

// ---------------------------------------------------------------------------
// vector clocks and the race check on instrumented variables

type vclock []int

func (v *vclock) join(o vclock) {
	if len(o) > len(*v) {
		n := make(vclock, len(o))
		copy(n, *v)
		*v = n
	}
	for i, x := range o {
		if x > (*v)[i] {
			(*v)[i] = x
		}
	}
}

func (v *vclock) tick(i int) {
	if i >= len(*v) {
		n := make(vclock, i+1)
		copy(n, *v)
		*v = n
	}
	(*v)[i]++
}

func (v vclock) copyFrom(o vclock) vclock {
	if cap(v) < len(o) {
		v = make(vclock, len(o))
	}
	v = v[:len(o)]
	copy(v, o)
	return v
}

func (v vclock) get(i int) int {
	if i < len(v) {
		return v[i]
	}
	return 0
}

type access struct {
	tid  int
	clk  int
	site uintptr
}

type varState struct {
	id    int
	avc   vclock // released by atomic operations on this address
	lastW access
	hasW  bool
	reads []access
	pin   interface{}
	label string
}

// Touch marks an access to a mutable shared variable (identified by address).
// It is a scheduling point when at least two threads are live and feeds the
// happens-before race check.
func Touch(addr interface{}, write bool) {
	e := cur
	if e == nil {
		return
	}
	if e.aborting {
		if e.helperOwner() != nil {
			return
		}
		goexit()
	}
	a := ptrOf(addr)
	pc := callerPC(2)
	if owner := e.helperOwner(); owner != nil {
		// free-running helper: race check only, attributed to its owner
		e.vmu.Lock()
		e.touchCheck(owner, a, write, pc)
		e.vmu.Unlock()
		return
	}
	e.vmu.Lock()
	vs := e.touched[a]
	if vs == nil {
		vs = &varState{id: e.newObj()}
		e.touched[a] = vs
	}
	e.vmu.Unlock()
	if !e.cfg.NoTouchPoints && len(e.threads)-e.finishedN >= 2 {
		e.point(op{kind: opTouch, obj: vs.id})
	}
	e.vmu.Lock()
	e.touchCheck(e.running, a, write, pc)
	e.vmu.Unlock()
}

// Atomic marks an operation of sync/atomic on addr (called by the vatomic
// stand-in before the real operation). It is a scheduling point when at least
// two threads are live, and a synchronisation edge: the operation acquires and
// releases the clock of its address.
func Atomic(addr interface{}) {
	e := cur
	if e == nil {
		return
	}
	if e.aborting {
		if e.helperOwner() != nil {
			return
		}
		goexit()
	}
	a := ptrOf(addr)
	t := e.helperOwner()
	e.vmu.Lock()
	vs := e.touched[a]
	if vs == nil {
		vs = &varState{id: e.newObj(), pin: addr}
		e.touched[a] = vs
	}
	e.vmu.Unlock()
	if t == nil {
		if !e.cfg.NoTouchPoints && len(e.threads)-e.finishedN >= 2 {
			e.point(op{kind: opTouch, obj: vs.id})
		}
		t = e.running
	}
	e.vmu.Lock()
	if t != nil {
		t.vc.join(vs.avc)
		vs.avc = vs.avc.copyFrom(t.vc)
		t.vc.tick(t.id)
	}
	e.vmu.Unlock()
}

// Access marks an access to a field of a lock-carrying struct. It is NOT a
// scheduling point: it only feeds the happens-before race check, which flags
// the access when it is not ordered by the modelled synchronisation after the
// previous conflicting access of another thread - in whatever schedule the two
// accesses were observed. get evaluates the field's address; a nil receiver on
// a path the statement would not have taken is ignored.
func Access(get func() interface{}, write bool, label string) {
	e := cur
	if e == nil || e.aborting || e.cfg.NoFieldNotes {
		return
	}
	var addr interface{}
	func() {
		defer func() { recover() }()
		addr = get()
	}()
	if addr == nil {
		return
	}
	a := ptrOf(addr)
	if a == 0 {
		return
	}
	pc := callerPC(2)
	t := e.helperOwner()
	e.vmu.Lock()
	if t == nil {
		t = e.running
	}
	if t != nil {
		vs := e.touched[a]
		if vs == nil {
			// keep the object alive so that its address is not reused within the execution
			vs = &varState{id: e.newObj(), pin: addr, label: label}
			e.touched[a] = vs
		}
		e.touchCheck(t, a, write, pc)
	}
	e.vmu.Unlock()
}

func (e *Exec) touchCheck(t *thread, a uintptr, write bool, pc uintptr) {
	vs := e.touched[a]
	if vs == nil {
		vs = &varState{id: e.newObj()}
		e.touched[a] = vs
	}
	if vs.hasW && vs.lastW.tid != t.id && vs.lastW.clk > t.vc.get(vs.lastW.tid) {
		e.race(vs.lastW.site, pc, true, write, vs.label)
	}
	if write {
		for _, r := range vs.reads {
			if r.tid != t.id && r.clk > t.vc.get(r.tid) {
				e.race(r.site, pc, false, true, vs.label)
			}
		}
		vs.reads = vs.reads[:0]
		vs.lastW = access{t.id, t.vc.get(t.id), pc}
		vs.hasW = true
	} else {
		found := false
		for i := range vs.reads {
			if vs.reads[i].tid == t.id {
				vs.reads[i] = access{t.id, t.vc.get(t.id), pc}
				found = true
			}
		}
		if !found {
			vs.reads = append(vs.reads, access{t.id, t.vc.get(t.id), pc})
		}
	}
}

func (e *Exec) race(a, b uintptr, aw, bw bool, label string) {
	rw := func(w bool) string {
		if w {
			return "write"
		}
		return "read"
	}
	s1 := rw(aw) + "@" + SiteFuncShort(a)
	s2 := rw(bw) + "@" + SiteFuncShort(b)
	if s2 < s1 {
		s1, s2 = s2, s1
	}
	k := s1 + " / " + s2
	if label != "" {
		k = label + ": " + k
	}
	if e.raceSeen == nil {
		e.raceSeen = map[string]bool{}
	}
	if !e.raceSeen[k] {
		e.raceSeen[k] = true
		e.Races = append(e.Races, k)
		e.RaceDetail = append(e.RaceDetail, rw(aw)+" at "+SiteFunc(a)+" is not ordered before "+rw(bw)+" at "+SiteFunc(b))
	}
}

func callerPC(skip int) uintptr {
	var pcs [1]uintptr
	runtime.Callers(skip+1, pcs[:])
	return pcs[0]
}

// SiteFunc renders a recorded pc as function:line.
func SiteFunc(pc uintptr) string {
	if pc == 0 {
		return "?"
	}
	f := runtime.FuncForPC(pc - 1)
	if f == nil {
		return "?"
	}
	_, line := f.FileLine(pc - 1)
	return fmt.Sprintf("%s:%d", trimFunc(f.Name()), line)
}

// SiteFuncShort renders a pc as function name only (stable across edits).
func SiteFuncShort(pc uintptr) string {
	if pc == 0 {
		return "?"
	}
	f := runtime.FuncForPC(pc - 1)
	if f == nil {
		return "?"
	}
	return trimFunc(f.Name())
}

func trimFunc(n string) string {
	n = strings.TrimPrefix(n, "github.com/krotik/ecal/")
	return n
}

// End finishes the execution successfully from the driver: threads that are
// still parked (e.g. idle pool workers) are released in abort mode.
func End() {
	e := cur
	if e == nil {
		return
	}
	if e.aborting {
		goexit()
	}
	e.abort(OutOK, "ended by driver")
	goexit()
}

// Fail ends the execution with a driver-detected violation.
func Fail(format string, a ...interface{}) {
	e := cur
	if e == nil {
		panic(fmt.Sprintf(format, a...))
	}
	if e.aborting {
		goexit()
	}
	e.abort(OutFault, fmt.Sprintf(format, a...))
	goexit()
}

// Note records a fault without ending the execution.
func Note(format string, a ...interface{}) {
	if e := cur; e != nil && !e.aborting {
		e.Faults = append(e.Faults, fmt.Sprintf(format, a...))
	}
}

// LiveThreads returns the number of unfinished controlled threads.
func LiveThreads() int {
	if e := cur; e != nil {
		return len(e.threads) - e.finishedN
	}
	return 0
}

// Step returns the number of scheduling steps taken so far (drivers use it to
// timestamp their own observations against the recorded trace).
func Step() int {
	if e := cur; e != nil {
		return len(e.Points)
	}
	return 0
}
