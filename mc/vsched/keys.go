package vsched

import (
	"reflect"
	"sort"
)

// KeysString returns the keys of a map with string-kind keys in sorted order
// (one of the iteration orders Go permits; used for replay determinism).
func KeysString(m interface{}) []string {
	v := reflect.ValueOf(m)
	if v.Kind() != reflect.Map {
		return nil
	}
	out := make([]string, 0, v.Len())
	for _, k := range v.MapKeys() {
		out = append(out, k.String())
	}
	sort.Strings(out)
	return out
}

// KeysUint64 is KeysString for unsigned integer keys.
func KeysUint64(m interface{}) []uint64 {
	v := reflect.ValueOf(m)
	if v.Kind() != reflect.Map {
		return nil
	}
	out := make([]uint64, 0, v.Len())
	for _, k := range v.MapKeys() {
		out = append(out, k.Uint())
	}
	sort.Slice(out, func(i, j int) bool { return out[i] < out[j] })
	return out
}

// KeysInt64 is KeysString for signed integer keys.
func KeysInt64(m interface{}) []int64 {
	v := reflect.ValueOf(m)
	if v.Kind() != reflect.Map {
		return nil
	}
	out := make([]int64, 0, v.Len())
	for _, k := range v.MapKeys() {
		out = append(out, k.Int())
	}
	sort.Slice(out, func(i, j int) bool { return out[i] < out[j] })
	return out
}
