package vsched

import (
	"fmt"
	"reflect"
	"sort"
	"time"
)

func ptrOf(addr interface{}) uintptr {
	return reflect.ValueOf(addr).Pointer()
}

// Violation is what an oracle returns for a failing execution.
type Violation struct {
	Key    string // stable key (scenario + outcome kind + blocking sites …)
	Msg    string
	Choice []int
	Trace  []string
	Extra  interface{}
}

// Explorer performs a depth-first, preemption-bounded exploration of all
// schedules (and data choices) of Body.
type Explorer struct {
	Name  string
	Bound int // preemption bound
	// FreeBound bounds the non-default choices at points where switching costs
	// no preemption (running thread blocked or yielding, time passing, data
	// choices). Poll loops make the space of such choices cyclic, so they need
	// their own bound for the search tree to be finite. <0: unbounded.
	FreeBound int
	Cfg       Config
	Body      func()
	// Check is the oracle, evaluated on every execution. It returns an
	// observation string (for distinct-outcome counting) and nil or a violation.
	Check    func(e *Exec) (obs string, v *Violation)
	Deadline time.Time
	MaxExecs int64
	Shard    int
	NShards  int
	MaxViol  int

	Execs       int64
	Transitions int64
	MaxPoints   int
	Longest     []int // prefix of the longest execution seen
	States      map[uint64]struct{}
	Outcomes    map[string]int64
	Viols       []*Violation
	violKeys    map[string]bool
	Capped      string
	HarnessErr  string
	Sample      []string // trace of the first execution
	rootKid     int
	stop        bool
}

// Explore runs the search and returns when the bounded space is exhausted, a
// cap was hit (Capped != "") or a harness error occurred (HarnessErr != "").
func (x *Explorer) Explore() {
	if x.States == nil {
		x.States = map[uint64]struct{}{}
	}
	if x.Outcomes == nil {
		x.Outcomes = map[string]int64{}
	}
	if x.violKeys == nil {
		x.violKeys = map[string]bool{}
	}
	if x.NShards == 0 {
		x.NShards = 1
	}
	if x.MaxViol == 0 {
		x.MaxViol = 8
	}
	x.Cfg.States = x.States
	// determinism: the default execution twice
	a := Run(nil, &x.Cfg, x.Body)
	b := Run(nil, &x.Cfg, x.Body)
	if d := diffExec(a, b); d != "" {
		x.HarnessErr = "nondeterministic default execution: " + d
		return
	}
	x.Sample = a.TraceStrings(60)
	// the second default execution doubles as the root of the search
	x.exploreExec(b, nil, 0)
}

func diffExec(a, b *Exec) string {
	if a.Outcome != b.Outcome {
		return fmt.Sprintf("outcome %s vs %s (%s | %s)", a.Outcome, b.Outcome, a.Detail, b.Detail)
	}
	if len(a.Points) != len(b.Points) {
		return fmt.Sprintf("%d vs %d points", len(a.Points), len(b.Points))
	}
	for i := range a.Points {
		p, q := a.Points[i], b.Points[i]
		if p.Chosen != q.Chosen || p.Kind != q.Kind || p.Site != q.Site || p.Alts != q.Alts {
			return fmt.Sprintf("point %d: %s vs %s", i, p.String(), q.String())
		}
	}
	return ""
}

func (p Point) String() string {
	if p.Data {
		return fmt.Sprintf("data choice of %d at %s", p.Alts, SiteFunc(p.Site))
	}
	return fmt.Sprintf("t%d %s obj%d at %s enabled=%v", p.Chosen, p.Kind, p.Obj, SiteFunc(p.Site), p.Enabled)
}

// TraceStrings renders the execution's points (at most max, 0 = all).
func (e *Exec) TraceStrings(max int) []string {
	var out []string
	for i, p := range e.Points {
		if max > 0 && i >= max {
			out = append(out, fmt.Sprintf("... %d more points", len(e.Points)-i))
			break
		}
		s := fmt.Sprintf("%d: choice %d/%d %s", i, e.Choices[i], p.Alts, p.String())
		out = append(out, s)
	}
	return out
}

// Preemptions counts the preemptive choices of the execution.
func (e *Exec) Preemptions() int {
	n := 0
	for i, p := range e.Points {
		if !p.Free && e.Choices[i] != 0 {
			n++
		}
	}
	return n
}

func (x *Explorer) capped() bool {
	if x.stop {
		return true
	}
	if x.MaxExecs > 0 && x.Execs >= x.MaxExecs {
		x.Capped = fmt.Sprintf("max executions %d", x.MaxExecs)
		x.stop = true
		return true
	}
	if !x.Deadline.IsZero() && x.Execs%64 == 0 && time.Now().After(x.Deadline) {
		x.Capped = "wall-clock budget"
		x.stop = true
		return true
	}
	return false
}

func (x *Explorer) explore(prefix []int, depth int) { x.exploreExec(nil, prefix, depth) }

func (x *Explorer) exploreExec(e *Exec, prefix []int, depth int) {
	if e == nil {
		if x.capped() {
			return
		}
		e = Run(prefix, &x.Cfg, x.Body)
	}
	// an execution that has already been run (the root) is always evaluated,
	// also when the budget is used up: a capped search explores less, it never
	// skips the oracle of what it did run
	if depth != 1 || x.NShards == 1 || true {
		x.Execs++
		x.Transitions += int64(len(e.Points))
	}
	if len(e.Points) > x.MaxPoints {
		x.MaxPoints = len(e.Points)
		x.Longest = append([]int(nil), prefix...)
	}
	switch e.Outcome {
	case OutDiverged, OutStuck:
		x.HarnessErr = e.Outcome + ": " + e.Detail + fmt.Sprintf(" prefix=%v", prefix)
		x.stop = true
		return
	}
	// the replayed prefix must have been followed exactly
	for i := range prefix {
		if i >= len(e.Choices) || e.Choices[i] != prefix[i] {
			x.HarnessErr = fmt.Sprintf("prefix not reproduced at %d (prefix=%v)", i, prefix)
			x.stop = true
			return
		}
	}
	obs, v := x.Check(e)
	x.Outcomes[obs]++
	if v != nil {
		if !x.violKeys[v.Key] {
			x.violKeys[v.Key] = true
			// confirm: the same schedule must fail identically 5 times
			for i := 0; i < 5; i++ {
				e2 := Run(e.Choices, &x.Cfg, x.Body)
				_, v2 := x.Check(e2)
				if v2 == nil || v2.Key != v.Key {
					x.HarnessErr = fmt.Sprintf("violation %q not reproducible on replay %d (choices=%v)", v.Key, i, e.Choices)
					x.stop = true
					return
				}
			}
			v.Choice = append([]int(nil), e.Choices...)
			v.Trace = e.TraceStrings(0)
			x.Viols = append(x.Viols, v)
			if len(x.Viols) >= x.MaxViol {
				x.Capped = "max distinct violations"
				x.stop = true
				return
			}
		}
	}
	pre, free := 0, 0
	for i := 0; i < len(e.Points); i++ {
		p := &e.Points[i]
		if i >= len(prefix) && p.Alts > 1 {
			cost, fcost := pre, free
			if !p.Free {
				cost++
			} else {
				fcost++
			}
			if cost <= x.Bound && (x.FreeBound < 0 || fcost <= x.FreeBound) {
				for alt := 1; alt < p.Alts; alt++ {
					if depth == 0 && x.NShards > 1 {
						k := x.rootKid
						x.rootKid++
						if k%x.NShards != x.Shard {
							continue
						}
					}
					child := make([]int, i+1)
					copy(child, e.Choices[:i])
					child[i] = alt
					x.explore(child, depth+1)
					if x.stop {
						return
					}
				}
			}
		}
		if e.Choices[i] != 0 {
			if p.Free {
				free++
			} else {
				pre++
			}
		}
	}
}

// OutcomeList returns the distinct observations sorted by frequency.
func (x *Explorer) OutcomeList(max int) []string {
	type kv struct {
		k string
		n int64
	}
	var l []kv
	for k, n := range x.Outcomes {
		l = append(l, kv{k, n})
	}
	sort.Slice(l, func(i, j int) bool {
		if l[i].n != l[j].n {
			return l[i].n > l[j].n
		}
		return l[i].k < l[j].k
	})
	var out []string
	for i, e := range l {
		if max > 0 && i >= max {
			break
		}
		out = append(out, fmt.Sprintf("%dx %s", e.n, e.k))
	}
	return out
}
