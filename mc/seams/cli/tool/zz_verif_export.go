package tool

import "io"

// VerifSetOS redirects the process seams of the command line tools (the same
// package variables the repository's own pack tests use). Overlay-added file.
func VerifSetOS(args []string, exit func(int), stderr io.Writer, he func(error)) (restore func()) {
	oa, oe, os, oh := osArgs, osExit, osStderr, handleError
	osArgs, osExit, osStderr, handleError = args, exit, stderr, he
	return func() { osArgs, osExit, osStderr, handleError = oa, oe, os, oh }
}

// VerifPackMarker returns the archive marker.
func VerifPackMarker() string { return packmarker }
