package util

import (
	"io/ioutil"
	"os"
)

// VerifOpened records every path handed to a file-system call by the import
// locator (overlay-added file; the calls in import.go are redirected here by a
// mechanical rewrite at build time, the repository is not modified).
var VerifOpened []string

func verifReadFile(p string) ([]byte, error) {
	VerifOpened = append(VerifOpened, p)
	return ioutil.ReadFile(p)
}

func verifOpen(p string) (*os.File, error) {
	VerifOpened = append(VerifOpened, p)
	return os.Open(p)
}

func verifStat(p string) (os.FileInfo, error) {
	VerifOpened = append(VerifOpened, p)
	return os.Stat(p)
}
