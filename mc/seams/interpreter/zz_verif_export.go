package interpreter

// VerifInstanceID exposes the unique instance id of a runtime component to the
// verification harness (overlay-added file, not part of the repository).
func (rt *baseRuntime) VerifInstanceID() string { return rt.instanceID }

// VerifDebuggerLock exposes the debugger's own lock (as interface{} because the
// instrumented build replaces package sync).
func VerifDebuggerLock(d interface{}) interface{} {
	if ed, ok := d.(*ecalDebugger); ok {
		return ed.lock
	}
	return nil
}
