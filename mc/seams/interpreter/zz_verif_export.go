package interpreter

// VerifInstanceID exposes the unique instance id of a runtime component to the
// verification harness (overlay-added file, not part of the repository).
func (rt *baseRuntime) VerifInstanceID() string { return rt.instanceID }
