// check is the driver behind every MANIFEST.json command:
//
//	bin/check <property> [--tier quick|thorough] [--replay file]
//
// It rebuilds the instrumented (Engine A) and plain (Engine B) worker binaries
// from /repo's current working tree (cached by tree hash), runs the property's
// jobs on all cores, matches what they report against the committed list of
// known findings, writes evidence/<id>.json and replay files, and exits 0 / 1
// (at least one confirmed VIOLATION line) / 2 (harness error and no violation).
package main

import (
	"bytes"
	"crypto/sha256"
	"encoding/hex"
	"encoding/json"
	"flag"
	"fmt"
	"go/ast"
	gobuild "go/build"
	goparser "go/parser"
	"go/token"
	"io/ioutil"
	"os"
	"os/exec"
	"path/filepath"
	"regexp"
	"runtime"
	"sort"
	"strconv"
	"strings"
	"sync"
	"syscall"
	"time"

	"verifmc/instr"
)

const (
	verifDir = "/verif"
	repoDir  = "/repo"
)

var goEnv = []string{"GOFLAGS=-mod=mod", "GOPROXY=off", "GOSUMDB=off", "GOTOOLCHAIN=local"}

// Violation as reported by the workers.
type Violation struct {
	Key    string      `json:"Key"`
	Msg    string      `json:"Msg"`
	Choice []int       `json:"Choice,omitempty"`
	Trace  []string    `json:"Trace,omitempty"`
	Input  string      `json:"Input,omitempty"`
	Extra  interface{} `json:"Extra,omitempty"`
}

// Result is the JSON a worker prints.
type Result struct {
	Prop        string                 `json:"prop"`
	Engine      string                 `json:"engine"`
	Scenario    string                 `json:"scenario"`
	Desc        string                 `json:"desc"`
	Bound       int                    `json:"bound"`
	FreeBound   int                    `json:"free_bound"`
	Shard       int                    `json:"shard"`
	NShards     int                    `json:"nshards"`
	Execs       int64                  `json:"executions"`
	Transitions int64                  `json:"transitions"`
	States      int                    `json:"states"`
	StateKeys   []uint64               `json:"state_keys,omitempty"`
	MaxPoints   int                    `json:"max_points"`
	Nontrivial  int64                  `json:"nontrivial"`
	Skipped     int64                  `json:"unspecified_skipped"`
	Outcomes    map[string]int64       `json:"outcomes"`
	Capped      string                 `json:"capped,omitempty"`
	HarnessErr  string                 `json:"harness_error,omitempty"`
	Violations  []*Violation           `json:"violations,omitempty"`
	Sample      []string               `json:"sample_trace,omitempty"`
	Samples     []interface{}          `json:"samples,omitempty"`
	WallS       float64                `json:"wall_s"`
	Races       []string               `json:"races,omitempty"`
	Extra       map[string]interface{} `json:"extra,omitempty"`
	Rule        string                 `json:"rule,omitempty"`
}

type listItem struct {
	Prop, Name, Desc string
	Quick, Thor      int // Engine A: preemption bound per tier (-1 = skip); Engine B: shards per tier (0 = skip)
	QuickShards      int
	ThorShards       int
	FreeQuick        int
	FreeThor         int
}

type job struct {
	bin    string
	args   []string
	name   string
	prop   string
	part   string
	res    *Result
	err    string
	out    []byte
	weight int
}

type propInfo struct {
	engine       string // "A" (mcsched) or "B" (mcseq)
	level        string
	rule         string
	assume       []string
	minOutcomes  int
	mustOutcomes []string
}

var props = map[string]*propInfo{}

// Finding is one entry of known_findings.json.
type Finding struct {
	Property  string `json:"property"`
	Key       string `json:"key"`
	WhatFails string `json:"what_fails"`
	Status    string `json:"status"` // open | fixed
	Commit    string `json:"commit,omitempty"`
	Example   string `json:"example,omitempty"`
	re        *regexp.Regexp
}

func die(code int, format string, a ...interface{}) {
	fmt.Fprintf(os.Stderr, "check: "+format+"\n", a...)
	os.Exit(code)
}

func main() {
	if len(os.Args) < 2 {
		die(2, "usage: check <property|build> [--tier quick|thorough] [--replay file]")
	}
	prop := os.Args[1]
	fs := flag.NewFlagSet("check", flag.ExitOnError)
	tier := fs.String("tier", os.Getenv("VERIF_TIER"), "quick|thorough")
	replay := fs.String("replay", "", "replay file")
	only := fs.String("only", "", "only scenarios/parts whose name contains this")
	jobsN := fs.Int("j", runtime.NumCPU(), "parallel workers")
	budget := fs.Float64("budget", 0, "override the tier's wall-clock budget in seconds")
	keep := fs.Bool("keep-going", false, "")
	fs.Parse(os.Args[2:])
	_ = keep
	if *tier == "" {
		*tier = "quick"
	}
	if *tier != "quick" && *tier != "thorough" {
		die(2, "bad tier %q", *tier)
	}
	seed := 0
	if s := os.Getenv("VERIF_SEED"); s != "" {
		seed, _ = strconv.Atoi(s)
	}
	start := time.Now()
	bdir, isum, err := build()
	if err != nil {
		die(2, "build failed: %v", err)
	}
	if prop == "build" {
		fmt.Println(bdir)
		return
	}
	pi := props[prop]
	if pi == nil {
		die(2, "unknown property %s", prop)
	}
	bin := filepath.Join(bdir, "mcsched")
	if pi.engine == "B" {
		bin = filepath.Join(bdir, "mcseq")
	}
	if *replay != "" {
		os.Exit(doReplay(bin, prop, *replay))
	}
	// list the jobs: a property may have scenarios in the Engine-A worker and
	// parts in the Engine-B worker
	total := 75.0
	if *tier == "thorough" {
		total = 900.0
	}
	if *budget > 0 {
		total = *budget
	}
	var jobs []*job
	for _, eng := range []string{"A", "B"} {
		ebin := filepath.Join(bdir, "mcsched")
		if eng == "B" {
			ebin = filepath.Join(bdir, "mcseq")
		}
		out, err := runCmd(ebin, "-list", "-prop", prop)
		if err != nil {
			die(2, "listing scenarios: %v\n%s", err, out)
		}
		var items []listItem
		if err := json.Unmarshal(out, &items); err != nil {
			die(2, "bad scenario list: %v", err)
		}
		for _, it := range items {
			if *only != "" && !strings.Contains(it.Name, *only) {
				continue
			}
			lvl := it.Quick
			shards := it.QuickShards
			free := it.FreeQuick
			if *tier == "thorough" {
				lvl = it.Thor
				shards = it.ThorShards
				free = it.FreeThor
			}
			if shards <= 0 {
				shards = 1
			}
			if eng == "A" {
				if lvl < 0 {
					continue
				}
				for s := 0; s < shards; s++ {
					jobs = append(jobs, &job{bin: ebin, name: fmt.Sprintf("%s[b%d,f%d,%d/%d]", it.Name, lvl, free, s, shards),
						args: []string{"-prop", prop, "-scenario", it.Name, "-tier", *tier, "-bound", fmt.Sprint(lvl), "-fbound", fmt.Sprint(free),
							"-shard", fmt.Sprint(s), "-nshards", fmt.Sprint(shards)}})
				}
			} else {
				if lvl <= 0 {
					continue
				}
				for s := 0; s < lvl; s++ {
					jobs = append(jobs, &job{bin: ebin, prop: prop, part: it.Name, name: fmt.Sprintf("%s[%d/%d]", it.Name, s, lvl),
						args: []string{"-prop", prop, "-part", it.Name, "-tier", *tier,
							"-shard", fmt.Sprint(s), "-nshards", fmt.Sprint(lvl)}})
				}
			}
		}
	}
	if len(jobs) == 0 {
		die(2, "no jobs for %s tier %s", prop, *tier)
	}
	// every job gets the budget that keeps the whole run inside `total`
	waves := (len(jobs) + *jobsN - 1) / *jobsN
	per := total / float64(waves)
	if per < 5 {
		per = 5
	}
	for _, j := range jobs {
		j.args = append(j.args, "-budget", fmt.Sprintf("%.1f", per))
	}
	runJobs(jobs, *jobsN)

	findings := loadFindings()
	ev := aggregate(prop, pi, *tier, seed, jobs, findings, isum)
	ev.WallS = time.Since(start).Seconds()
	if *only == "" {
		writeEvidence(prop, ev)
	} else {
		// a partial run (development aid) must not replace the evidence of a full run
		fmt.Fprintln(os.Stderr, "check: --only given, evidence file left untouched")
	}
	for _, l := range ev.lines {
		fmt.Println(l)
	}
	if ev.Violations > 0 {
		// a confirmed (replayed) violation stands even when another job of the
		// run could not be decided
		if ev.harnessErr != "" {
			fmt.Fprintln(os.Stderr, "check: harness error in another job:", ev.harnessErr)
		}
		os.Exit(1)
	}
	if ev.harnessErr != "" {
		fmt.Fprintln(os.Stderr, "check: harness error:", ev.harnessErr)
		os.Exit(2)
	}
	cov := ev.Coverage
	fmt.Printf("OK property=%s tier=%s executions=%v states=%v exhaustive=%v wall=%.1fs\n", prop, *tier,
		cov["evaluations"], cov["states"], cov["exhaustive"], ev.WallS)
}

func runCmd(bin string, args ...string) ([]byte, error) {
	cmd := exec.Command(bin, args...)
	cmd.Env = append(os.Environ(), "GOMAXPROCS=1")
	var so, se bytes.Buffer
	cmd.Stdout = &so
	cmd.Stderr = &se
	err := cmd.Run()
	if err != nil {
		return append(so.Bytes(), se.Bytes()...), err
	}
	return so.Bytes(), nil
}

func runJobs(jobs []*job, n int) {
	var wg sync.WaitGroup
	ch := make(chan *job)
	for i := 0; i < n; i++ {
		wg.Add(1)
		go func() {
			defer wg.Done()
			for j := range ch {
				cmd := exec.Command(j.bin, j.args...)
				cur := filepath.Join(verifDir, ".build", "cur", fmt.Sprintf("%d-%s", os.Getpid(), strings.NewReplacer("/", "_", "[", "_", "]", "_", ",", "_").Replace(j.name)))
				os.MkdirAll(filepath.Dir(cur), 0755)
				procs := "GOMAXPROCS=1"
				if strings.HasSuffix(j.bin, "mcseq") {
					// Engine B runs real goroutines (processor workers, lexers):
					// poll loops with 5ns sleeps crawl on a single P
					procs = "GOMAXPROCS=2"
				}
				cmd.Env = append(os.Environ(), procs, "GOTRACEBACK=all", "VERIF_CURFILE="+cur)
				var so, se bytes.Buffer
				cmd.Stdout = &so
				cmd.Stderr = &se
				err := cmd.Run()
				j.out = so.Bytes()
				var r Result
				// the result is the last line of stdout
				lines := bytes.Split(bytes.TrimSpace(so.Bytes()), []byte("\n"))
				if len(lines) > 0 && json.Unmarshal(lines[len(lines)-1], &r) == nil && r.Prop != "" {
					j.res = &r
				}
				if err != nil && j.res == nil {
					if in, rerr := ioutil.ReadFile(cur); rerr == nil && len(in) > 0 {
						// a process-killing fatal error is attributed to the case in progress
						first := firstLine(se.String(), 160)
						if i := strings.Index(se.String(), "fatal error:"); i >= 0 {
							first = firstLine(se.String()[i:], 160)
						} else if i := strings.Index(se.String(), "panic:"); i >= 0 {
							first = firstLine(se.String()[i:], 160)
						}
						j.res = &Result{Prop: j.prop, Scenario: j.part, Capped: "worker died on a case; rest of the shard not covered",
							Outcomes: map[string]int64{}, Execs: 1,
							Violations: []*Violation{{Key: "process-killed@" + j.part + ":" + first, Msg: "the worker process died while evaluating this input: " + first, Input: string(in)}}}
						os.Remove(cur)
						continue
					}
					tail := se.String()
					if len(tail) > 3000 {
						tail = tail[:1500] + "\n...\n" + tail[len(tail)-1500:]
					}
					j.err = fmt.Sprintf("worker %s failed: %v\n%s", j.name, err, tail)
				}
			}
		}()
	}
	for _, j := range jobs {
		ch <- j
	}
	close(ch)
	wg.Wait()
}

// ---------------------------------------------------------------------------
// build (cached by tree hash)

func treeHash() string {
	h := sha256.New()
	add := func(root string, exts ...string) {
		var files []string
		filepath.Walk(root, func(p string, fi os.FileInfo, err error) error {
			if err != nil {
				return nil
			}
			if fi.IsDir() {
				if n := fi.Name(); n == ".git" || n == ".build" {
					return filepath.SkipDir
				}
				return nil
			}
			for _, e := range exts {
				if strings.HasSuffix(p, e) {
					files = append(files, p)
				}
			}
			return nil
		})
		sort.Strings(files)
		for _, f := range files {
			b, _ := ioutil.ReadFile(f)
			fmt.Fprintf(h, "%s %d\n", f, len(b))
			h.Write(b)
		}
	}
	add(repoDir, ".go", "go.mod", "go.sum")
	add(filepath.Join(verifDir, "mc"), ".go", "go.mod")
	return hex.EncodeToString(h.Sum(nil))[:16]
}

func build() (string, *instr.Summary, error) {
	os.MkdirAll(filepath.Join(verifDir, ".build"), 0755)
	lock, err := os.OpenFile(filepath.Join(verifDir, ".build", "lock"), os.O_CREATE|os.O_RDWR, 0644)
	if err != nil {
		return "", nil, err
	}
	defer lock.Close()
	syscall.Flock(int(lock.Fd()), syscall.LOCK_EX)
	defer syscall.Flock(int(lock.Fd()), syscall.LOCK_UN)

	h := treeHash()
	// VERIF_COVER=1 (development aid, tools/coverage.sh): build the workers with
	// statement coverage of the repository packages; run with GOCOVERDIR set
	cover := os.Getenv("VERIF_COVER") != ""
	if cover {
		h += "-cover"
	}
	bdir := filepath.Join(verifDir, ".build", "h-"+h)
	sumFile := filepath.Join(bdir, "instr_summary.json")
	if _, err := os.Stat(filepath.Join(bdir, "ok")); err == nil {
		var s instr.Summary
		b, _ := ioutil.ReadFile(sumFile)
		json.Unmarshal(b, &s)
		return bdir, &s, nil
	}
	// remove older builds
	ents, _ := ioutil.ReadDir(filepath.Join(verifDir, ".build"))
	for _, e := range ents {
		if strings.HasPrefix(e.Name(), "h-") && strings.HasSuffix(e.Name(), "-cover") == cover {
			os.RemoveAll(filepath.Join(verifDir, ".build", e.Name()))
		}
	}
	os.MkdirAll(bdir, 0755)
	for _, e := range goEnv {
		kv := strings.SplitN(e, "=", 2)
		os.Setenv(kv[0], kv[1])
	}
	mc := filepath.Join(verifDir, "mc")
	// go.sum of the harness module follows the repository's
	if b, err := ioutil.ReadFile(filepath.Join(repoDir, "go.sum")); err == nil {
		old, _ := ioutil.ReadFile(filepath.Join(mc, "go.sum"))
		if !bytes.Contains(old, bytes.TrimSpace(b)) {
			ioutil.WriteFile(filepath.Join(mc, "go.sum"), append(old, b...), 0644)
		}
	}
	seams := seamFiles()
	sum, err := instr.Run(instr.Options{Repo: repoDir, Out: filepath.Join(bdir, "instr"),
		VschedDir: filepath.Join(mc, "vsched"), Extra: seams})
	if err != nil {
		return "", nil, fmt.Errorf("instrumenter: %v", err)
	}
	run := func(args ...string) error {
		if cover && args[0] == "build" {
			args = append([]string{"build", "-cover", "-coverpkg=github.com/krotik/ecal/..."}, args[1:]...)
		}
		cmd := exec.Command("go", args...)
		cmd.Dir = mc
		out, err := cmd.CombinedOutput()
		if err != nil {
			return fmt.Errorf("go %s: %v\n%s", strings.Join(args, " "), err, out)
		}
		return nil
	}
	if err := run("build", "-overlay", filepath.Join(bdir, "instr", "overlay.json"), "-o", filepath.Join(bdir, "mcsched"), "./cmd/mcsched"); err != nil {
		return "", nil, err
	}
	// Engine B: plain repository plus export seams only
	seamOverlay := map[string]string{}
	for _, x := range seams {
		kv := strings.SplitN(x, "=", 2)
		seamOverlay[filepath.Join(repoDir, kv[0])] = kv[1]
	}
	// C17: route the import locator's file-system calls through recording wrappers
	if src, err := ioutil.ReadFile(filepath.Join(repoDir, "util", "import.go")); err == nil {
		txt := string(src)
		n := 0
		for _, r := range [][2]string{{"ioutil.ReadFile(", "verifReadFile("}, {"os.ReadFile(", "verifReadFile("},
			{"os.Open(", "verifOpen("}, {"os.Stat(", "verifStat("}, {"os.Lstat(", "verifStat("}} {
			n += strings.Count(txt, r[0])
			txt = strings.Replace(txt, r[0], r[1], -1)
		}
		if strings.Contains(txt, `"io/ioutil"`) {
			txt += "\nvar _ = ioutil.ReadFile\n"
		}
		if strings.Contains(txt, `"os"`) {
			txt += "\nvar _ = os.Open\n"
		}
		dst := filepath.Join(bdir, "seam_util_import.go")
		ioutil.WriteFile(dst, []byte(txt), 0644)
		seamOverlay[filepath.Join(repoDir, "util", "import.go")] = dst
		ioutil.WriteFile(filepath.Join(bdir, "io_calls_rewritten"), []byte(fmt.Sprint(n)), 0644)
	}
	// C13: an accessor for every package-level variable of the parser and the
	// interpreter (generated from the working tree, so that a variable a change
	// adds is covered as well); Engine B only
	for _, pkg := range []string{"parser", "interpreter"} {
		src, err := genGlobals(filepath.Join(repoDir, pkg))
		if err != nil {
			return "", nil, fmt.Errorf("globals accessor for %s: %v", pkg, err)
		}
		dst := filepath.Join(bdir, "seam_"+pkg+"_globals.go")
		ioutil.WriteFile(dst, []byte(src), 0644)
		seamOverlay[filepath.Join(repoDir, pkg, "zz_verif_globals.go")] = dst
	}
	js, _ := json.Marshal(map[string]interface{}{"Replace": seamOverlay})
	ioutil.WriteFile(filepath.Join(bdir, "seams.json"), js, 0644)
	if _, err := os.Stat(filepath.Join(mc, "cmd", "mcseq")); err == nil {
		if err := run("build", "-overlay", filepath.Join(bdir, "seams.json"), "-o", filepath.Join(bdir, "mcseq"), "./cmd/mcseq"); err != nil {
			return "", nil, err
		}
	}
	sj, _ := json.MarshalIndent(sum, "", " ")
	ioutil.WriteFile(sumFile, sj, 0644)
	ioutil.WriteFile(filepath.Join(bdir, "ok"), []byte(time.Now().String()), 0644)
	return bdir, sum, nil
}

// genGlobals writes `func VerifGlobals() map[string]interface{}` returning the
// address of every package-level variable of the package in dir.
func genGlobals(dir string) (string, error) {
	bp, err := gobuild.Default.ImportDir(dir, 0)
	if err != nil {
		return "", err
	}
	fset := token.NewFileSet()
	var names []string
	for _, f := range bp.GoFiles {
		af, err := goparser.ParseFile(fset, filepath.Join(dir, f), nil, 0)
		if err != nil {
			return "", err
		}
		for _, d := range af.Decls {
			gd, ok := d.(*ast.GenDecl)
			if !ok || gd.Tok != token.VAR {
				continue
			}
			for _, sp := range gd.Specs {
				for _, n := range sp.(*ast.ValueSpec).Names {
					if n.Name != "_" {
						names = append(names, n.Name)
					}
				}
			}
		}
	}
	sort.Strings(names)
	var b strings.Builder
	fmt.Fprintf(&b, "package %s\n\n// VerifGlobals is generated by /verif (Engine B seam).\nfunc VerifGlobals() map[string]interface{} {\n\treturn map[string]interface{}{\n", bp.Name)
	for _, n := range names {
		fmt.Fprintf(&b, "\t\t%q: &%s,\n", n, n)
	}
	b.WriteString("\t}\n}\n")
	return b.String(), nil
}

// seamFiles lists the overlay-added export seams ("repo-relative target=source").
func seamFiles() []string {
	var out []string
	root := filepath.Join(verifDir, "mc", "seams")
	filepath.Walk(root, func(p string, fi os.FileInfo, err error) error {
		if err != nil || fi.IsDir() || !strings.HasSuffix(p, ".go") {
			return nil
		}
		rel, _ := filepath.Rel(root, p)
		out = append(out, rel+"="+p)
		return nil
	})
	sort.Strings(out)
	return out
}

// ---------------------------------------------------------------------------
// known findings

func loadFindings() []*Finding {
	b, err := ioutil.ReadFile(filepath.Join(verifDir, "known_findings.json"))
	if err != nil {
		return nil
	}
	var doc struct {
		Findings []*Finding `json:"findings"`
	}
	if err := json.Unmarshal(b, &doc); err != nil {
		die(2, "known_findings.json: %v", err)
	}
	for _, f := range doc.Findings {
		if strings.HasPrefix(f.Key, "re:") {
			f.re = regexp.MustCompile("^(?:" + f.Key[3:] + ")$")
		}
	}
	return doc.Findings
}

func matchFinding(fs []*Finding, prop, key string) *Finding {
	for _, f := range fs {
		if f.Property != prop || f.Status != "open" {
			continue
		}
		if f.re != nil {
			if f.re.MatchString(key) {
				return f
			}
		} else if f.Key == key {
			return f
		}
	}
	return nil
}

// ---------------------------------------------------------------------------
// aggregation and evidence

type Evidence struct {
	PropertyID  string                 `json:"property_id"`
	Tier        string                 `json:"tier"`
	Seed        int                    `json:"seed"`
	Level       string                 `json:"level"`
	Coverage    map[string]interface{} `json:"coverage"`
	Assumptions []string               `json:"assumptions"`
	WallS       float64                `json:"wall_s"`
	Violations  int                    `json:"violations"`
	lines       []string
	harnessErr  string
}

func aggregate(prop string, pi *propInfo, tier string, seed int, jobs []*job, findings []*Finding, isum *instr.Summary) *Evidence {
	ev := &Evidence{PropertyID: prop, Tier: tier, Seed: seed, Level: pi.level, Coverage: map[string]interface{}{},
		Assumptions: pi.assume}
	var execs, trans, nontriv, skipped int64
	ruleText := ""
	states := map[uint64]struct{}{}
	statesN := 0
	outcomes := map[string]int64{}
	var caps []string
	var samples []interface{}
	type scen struct {
		Name       string           `json:"name"`
		Desc       string           `json:"desc,omitempty"`
		Bound      *int             `json:"preemption_bound,omitempty"`
		FreeBound  *int             `json:"free_choice_bound,omitempty"`
		Execs      int64            `json:"executions"`
		MaxPoints  int              `json:"max_points,omitempty"`
		Outcomes   map[string]int64 `json:"outcomes,omitempty"`
		Capped     string           `json:"capped,omitempty"`
		Nontrivial int64            `json:"nontrivial,omitempty"`
	}
	scens := map[string]*scen{}
	var scenOrder []string
	knownHit := map[string]int{}
	seenViol := map[string]bool{}
	nviol := 0
	var races []string
	raceSeen := map[string]bool{}
	extra := map[string]interface{}{}
	os.MkdirAll(filepath.Join(verifDir, "replays"), 0755)
	if old, _ := filepath.Glob(filepath.Join(verifDir, "replays", prop+"-*.json")); len(old) > 0 {
		for _, f := range old {
			os.Remove(f)
		}
	}
	for _, j := range jobs {
		if j.err != "" && j.res == nil {
			ev.harnessErr = j.err
			continue
		}
		r := j.res
		if r.HarnessErr != "" {
			ev.harnessErr = fmt.Sprintf("%s: %s", j.name, r.HarnessErr)
		}
		execs += r.Execs
		trans += r.Transitions
		nontriv += r.Nontrivial
		skipped += r.Skipped
		for _, k := range r.StateKeys {
			states[k] = struct{}{}
		}
		if len(r.StateKeys) == 0 {
			statesN += r.States
		}
		s := scens[r.Scenario]
		if s == nil {
			s = &scen{Name: r.Scenario, Desc: r.Desc, Outcomes: map[string]int64{}}
			if r.Engine == "A" {
				b, f := r.Bound, r.FreeBound
				s.Bound, s.FreeBound = &b, &f
			}
			scens[r.Scenario] = s
			scenOrder = append(scenOrder, r.Scenario)
		}
		s.Execs += r.Execs
		s.Nontrivial += r.Nontrivial
		if r.MaxPoints > s.MaxPoints {
			s.MaxPoints = r.MaxPoints
		}
		for k, n := range r.Outcomes {
			s.Outcomes[k] += n
			outcomes[k] += n
		}
		if r.Capped == "" {
			// a search that runs inside one execution reports its own cap in the observation
			for k := range r.Outcomes {
				if strings.Contains(k, "capped-at-transition-limit") {
					r.Capped = "transition limit of the breadth-first search (every depth below the last is complete)"
				}
			}
		}
		if r.Capped != "" {
			s.Capped = r.Capped
			caps = append(caps, j.name+": "+r.Capped)
		}
		if len(samples) < 6 {
			if len(r.Sample) > 0 && r.Shard == 0 {
				samples = append(samples, map[string]interface{}{"scenario": r.Scenario, "default_schedule_trace": r.Sample})
			}
			for _, x := range r.Samples {
				if len(samples) < 6 {
					samples = append(samples, x)
				}
			}
		}
		if r.Rule != "" && !strings.Contains(ruleText, r.Rule) {
			if ruleText != "" {
				ruleText += " || "
			}
			ruleText += r.Scenario + ": " + r.Rule
			ev.Coverage["rule"] = ruleText
		}
		for k, v := range r.Extra {
			extra[r.Scenario+"."+k] = v
		}
		for _, rc := range r.Races {
			if !raceSeen[rc] {
				raceSeen[rc] = true
				races = append(races, rc)
			}
		}
		for _, v := range r.Violations {
			if f := matchFinding(findings, prop, v.Key); f != nil {
				knownHit[f.Key]++
				continue
			}
			if seenViol[v.Key] {
				continue
			}
			seenViol[v.Key] = true
			nviol++
			path := filepath.Join(verifDir, "replays", fmt.Sprintf("%s-%d.json", prop, nviol))
			rep := map[string]interface{}{"property": prop, "scenario": r.Scenario, "key": v.Key, "message": v.Msg,
				"preemption_bound": r.Bound, "choices": v.Choice, "trace": v.Trace, "input": v.Input, "extra": v.Extra,
				"replay_cmd": fmt.Sprintf("bin/check %s --replay %s", prop, path)}
			js, _ := json.MarshalIndent(rep, "", " ")
			ioutil.WriteFile(path, js, 0644)
			ev.lines = append(ev.lines, fmt.Sprintf("VIOLATION property=%s replay=%s", prop, path))
			ev.lines = append(ev.lines, fmt.Sprintf("  key: %s", v.Key))
			ev.lines = append(ev.lines, fmt.Sprintf("  %s", firstLine(v.Msg, 400)))
		}
	}
	// counters that scenarios report through their observation strings
	// (explicit-state searches and bulk enumerations inside one execution)
	ctrRe := regexp.MustCompile(`(states|transitions|configurations|maxdepth)=(\d+)`)
	ctr := map[string]int64{}
	for _, sc := range scens {
		for o := range sc.Outcomes {
			for _, m := range ctrRe.FindAllStringSubmatch(o, -1) {
				v, _ := strconv.ParseInt(m[2], 10, 64)
				if m[1] == "maxdepth" {
					if v > ctr[m[1]] {
						ctr[m[1]] = v
					}
				} else {
					ctr[m[1]] += v
				}
			}
		}
	}
	kf := []string{}
	for _, f := range findings {
		if f.Property == prop && f.Status == "open" && knownHit[f.Key] > 0 {
			ev.lines = append([]string{fmt.Sprintf("KNOWN-FINDING: property=%s %s", prop, f.WhatFails)}, ev.lines...)
			kf = append(kf, f.Key)
		}
	}
	ev.Violations = nviol
	var sl []*scen
	for _, n := range scenOrder {
		sl = append(sl, scens[n])
	}
	cov := ev.Coverage
	if len(states) > 0 {
		statesN += len(states)
	}
	cov["evaluations"] = execs
	cov["exhaustive"] = len(caps) == 0
	cov["caps_hit"] = caps
	cov["samples"] = samples
	cov["scenarios"] = sl
	cov["distinct_outcomes"] = len(outcomes)
	cov["known_findings_hit"] = kf
	if len(extra) > 0 {
		cov["extra"] = extra
	}
	if len(ctr) > 0 {
		cov["search_states"] = ctr["states"]
		cov["search_transitions"] = ctr["transitions"]
		cov["search_max_depth"] = ctr["maxdepth"]
		cov["configurations_enumerated"] = ctr["configurations"]
	}
	if caps == nil {
		caps = []string{}
	}
	if races == nil {
		races = []string{}
	}
	cov["caps_hit"] = caps
	if pi.engine == "A" {
		cov["states"] = statesN
		cov["transitions"] = trans
		cov["traces_validated_against_impl"] = execs
		cov["distinct_nontrivial"] = statesN
		cov["rule"] = "every execution is a run of the real (instrumented) implementation under the controlled scheduler; " +
			"states = distinct (per-thread program location and pending operation, enabled set) scheduling states; " +
			"transitions = scheduling steps; all schedules within the preemption bound and free-choice bound of each scenario are enumerated depth-first"
		cov["instrumentation"] = isum
		cov["races_on_instrumented_variables"] = races
	} else {
		cov["distinct_nontrivial"] = nontriv
		cov["unspecified_skipped"] = skipped
		if statesN > 0 {
			// additional Engine-A scenarios of an Engine-B property
			cov["states"] = statesN
			cov["transitions"] = trans
			cov["traces_validated_against_impl"] = execs
		}
		if _, ok := cov["rule"]; !ok {
			cov["rule"] = pi.rule
		}
	}
	if len(samples) == 0 && ev.harnessErr == "" {
		ev.harnessErr = "no samples produced"
	}
	for _, mo := range pi.mustOutcomes {
		if outcomes[mo] == 0 && ev.harnessErr == "" && len(caps) == 0 {
			ev.harnessErr = "vacuous exploration: outcome " + mo + " never observed"
		}
	}
	if pi.minOutcomes > 0 && len(outcomes) < pi.minOutcomes && ev.harnessErr == "" {
		ev.harnessErr = fmt.Sprintf("vacuous exploration: only %d distinct outcome(s)", len(outcomes))
	}
	return ev
}

func firstLine(s string, max int) string {
	s = strings.Replace(s, "\n", " | ", -1)
	if len(s) > max {
		s = s[:max] + "..."
	}
	return s
}

func writeEvidence(prop string, ev *Evidence) {
	os.MkdirAll(filepath.Join(verifDir, "evidence"), 0755)
	js, err := json.MarshalIndent(ev, "", " ")
	if err != nil {
		die(2, "evidence: %v", err)
	}
	ioutil.WriteFile(filepath.Join(verifDir, "evidence", prop+".json"), js, 0644)
}

func doReplay(bin, prop, path string) int {
	b, err := ioutil.ReadFile(path)
	if err != nil {
		die(2, "%v", err)
	}
	var rep struct {
		Scenario string `json:"scenario"`
		Choices  []int  `json:"choices"`
		Input    string `json:"input"`
		Key      string `json:"key"`
	}
	if err := json.Unmarshal(b, &rep); err != nil {
		die(2, "%v", err)
	}
	var args []string
	if props[prop].engine == "A" {
		var cs []string
		for _, c := range rep.Choices {
			cs = append(cs, fmt.Sprint(c))
		}
		c := strings.Join(cs, ",")
		if c == "" {
			c = "-"
		}
		args = []string{"-prop", prop, "-scenario", rep.Scenario, "-replay", c}
	} else {
		args = []string{"-prop", prop, "-part", rep.Scenario, "-replay-input", rep.Input}
	}
	cmd := exec.Command(bin, args...)
	cmd.Env = append(os.Environ(), "GOMAXPROCS=1")
	cmd.Stdout = os.Stdout
	cmd.Stderr = os.Stderr
	if err := cmd.Run(); err != nil {
		fmt.Printf("VIOLATION property=%s replay=%s\n", prop, path)
		return 1
	}
	return 0
}
