package main

var schedAssume = []string{
	"sequentially consistent memory; a thread runs atomically between two scheduling points",
	"scheduling points: Lock/RLock/Cond.Wait/Signal/Broadcast/WaitGroup.Wait/Sleep/go plus accesses to mutable package-level and escaping-closure variables (derived from the current tree); unsynchronised struct-field accesses are not interleaved",
	"the vsched shims are faithful to package sync (FIFO signal, writer preference, no spurious wake-ups)",
	"bounded: schedules within the stated preemption bound and free-choice bound of each scenario",
}

func init() {
	props["C09"] = &propInfo{engine: "A", level: "model_checking", assume: schedAssume, minOutcomes: 1}
}

func init() {
	props["C02"] = &propInfo{engine: "A", level: "model_checking", assume: schedAssume, minOutcomes: 1}
}

func init() {
	props["C12"] = &propInfo{engine: "A", level: "model_checking", assume: schedAssume, minOutcomes: 1}
	props["C11"] = &propInfo{engine: "A", level: "model_checking", assume: schedAssume, minOutcomes: 1}
}

func init() {
	props["C13"] = &propInfo{engine: "A", level: "model_checking", assume: schedAssume, minOutcomes: 1}
}

func init() {
	props["C15"] = &propInfo{engine: "A", level: "model_checking", assume: schedAssume, minOutcomes: 1}
}

func init() {
	props["C16"] = &propInfo{engine: "A", level: "model_checking", assume: schedAssume, minOutcomes: 1}
}

func init() {
	props["C10"] = &propInfo{engine: "A", level: "model_checking", assume: schedAssume, minOutcomes: 2}
}

func init() {
	props["C17"] = &propInfo{engine: "B", level: "exploration", minOutcomes: 2, mustOutcomes: []string{"inside:content", "outside:error", "inside:imported"},
		assume: []string{"lexical containment as defined by the property (symbolic links are not followed by the reference normaliser)", "the file-system calls of util/import.go are observed through a mechanical rewrite of ioutil.ReadFile/os.Open/os.Stat to recording wrappers at build time"}}
}

func init() {
	props["C18"] = &propInfo{engine: "B", level: "exploration", minOutcomes: 2, mustOutcomes: []string{"positions-ok"},
		assume: []string{"columns are counted in bytes from 1, lines from 1; for comment tokens the reported position is that of the first content character (after # or /*)"}}
}

func init() {
	props["C19"] = &propInfo{engine: "B", level: "exploration", minOutcomes: 2, mustOutcomes: []string{"value", "error"},
		assume: []string{"number conversion is compared only where Go defines it exactly: integral values inside the parameter type's range (and |x| < 2^53)"}}
}

func init() {
	props["C20"] = &propInfo{engine: "B", level: "exploration", minOutcomes: 1, mustOutcomes: []string{"ran"},
		assume: []string{"the packed binary is started in-process through RunPackedBinary with the osArgs/osExit/osStderr/handleError package seams (the ones the repository's pack tests use); the interpreter binary is represented by filler bytes"}}
}

func init() {
	props["C07"] = &propInfo{engine: "B", level: "exploration", minOutcomes: 2, mustOutcomes: []string{"tree", "error"},
		assume: []string{"a goroutine blocked on an abandoned channel is stable, so the goroutine dump after the call is not a timing oracle", "the position of an 'unexpected end' error on empty input is left open"}}
}

func init() {
	props["C14"] = &propInfo{engine: "B", level: "exploration", minOutcomes: 2, mustOutcomes: []string{"raw-untouched", "string"},
		assume: []string{"the text of a value is fmt.Sprint of it (2 for 1+1, 7 for the harness tick function)", "literals with unbalanced markers or ill-formed expressions are only required to yield a string without panic, endless loop or evaluation of substituted data"}}
}

func init() {
	props["C08"] = &propInfo{engine: "B", level: "exploration", minOutcomes: 1, mustOutcomes: []string{"roundtrip-ok"},
		assume: []string{"tree equality = node kind, token value, identifier flag, raw-vs-interpolating flag of strings and child structure; positions, comments and blank lines are ignored"}}
}

func init() {
	props["C01"] = &propInfo{engine: "B", level: "exploration", minOutcomes: 2, mustOutcomes: []string{"matched", "fired", "in-scope", "out-of-scope"},
		assume: []string{"'an equal value' = Go equality for scalars, deep equality for lists and maps; event states hold ECAL values (numbers are float64)", "left open: a rule suppressing itself, regular expressions against a NULL state value, wildcard or empty segments inside an event kind"}}
}

func init() {
	props["C03"] = &propInfo{engine: "B", level: "exploration", minOutcomes: 2, mustOutcomes: []string{"value", "error"},
		assume: []string{"reference semantics as listed in DESIGN.md 9a: only what ecal.md and the property statement define is compared; zero divisors, % outside non-negative integers, ordering across kinds, equality/membership of containers, like/hasPrefix/hasSuffix on non-strings, membership in non-lists are Unspecified (counted, not compared)", "when both operands are of the wrong kind the left one is the one reported (left-to-right evaluation)"}}
}

func init() {
	props["C04"] = &propInfo{engine: "B", level: "exploration", minOutcomes: 1, mustOutcomes: []string{"agrees"},
		assume: []string{"left open (Unspecified, not compared): otherwise when the try block is left by return/break/continue, exits from inside finally, range without step and start > end, range with a step whose sign contradicts start/end, break/continue/return leaving the program", "observation is the ordered trace of a harness mark() function plus the type/detail/data of the final error"}}
}

func init() {
	props["C06"] = &propInfo{engine: "B", level: "exploration", minOutcomes: 2, mustOutcomes: []string{"value", "error"},
		assume: []string{"excluded as non-terminating by specification: sleep with a positive number, valid setCronTrigger/setPulseTrigger registrations; evaluation runs under a deterministic step budget (user-written endless loops end as 'budget')", "a panic on a worker goroutine kills the worker subprocess and is attributed to the case in progress through a side file written before each risky case"}}
}

func init() {
	props["C05"] = &propInfo{engine: "B", level: "exploration", minOutcomes: 1, mustOutcomes: []string{"agrees"},
		assume: []string{"reading an undefined name yields NULL (pinned by the repository's suite, not by the documentation)", "every block is entered once per program (left-over bindings of a re-entered block are left open)", "the argument of add/del and its aliases are not read after the call ('only the returned value should be used further')", "a failing statement inside try has no effect"}}
}
