package main

import (
	"encoding/json"
	"flag"
	"fmt"
	"os"

	"verifmc/instr"
)

func main() {
	repo := flag.String("repo", "/repo", "")
	out := flag.String("out", "", "")
	vs := flag.String("vsched", "/verif/mc/vsched", "")
	notouch := flag.Bool("notouch", false, "")
	flag.Parse()
	sum, err := instr.Run(instr.Options{Repo: *repo, Out: *out, VschedDir: *vs, NoTouch: *notouch, Extra: flag.Args()})
	if err != nil {
		fmt.Fprintln(os.Stderr, "instr:", err)
		os.Exit(2)
	}
	js, _ := json.MarshalIndent(sum, "", " ")
	fmt.Println(string(js))
}
