package main

import (
	"fmt"
	"reflect"
	"regexp"
	"sort"
	"strings"
	"sync"
	"unsafe"

	"github.com/krotik/ecal/engine"
	"github.com/krotik/ecal/interpreter"
	"github.com/krotik/ecal/parser"
)

// ---------------------------------------------------------------------------
// C01 — exactly the matching, in-scope, unsuppressed rules fire once per event

// reference matcher ---------------------------------------------------------

func refKindMatch(pattern string, kind []string) bool {
	segs := strings.Split(pattern, ".")
	if len(segs) != len(kind) {
		return false
	}
	for i, s := range segs {
		if s != "*" && s != kind[i] {
			return false
		}
	}
	return true
}

func refStateMatch(req map[string]interface{}, state map[interface{}]interface{}) bool {
	for k, want := range req {
		have, ok := state[k]
		if !ok {
			return false
		}
		if want == nil {
			continue
		}
		if re, isRe := want.(*regexp.Regexp); isRe {
			if !re.MatchString(fmt.Sprint(have)) {
				return false
			}
			continue
		}
		if !reflect.DeepEqual(want, have) {
			return false
		}
	}
	return true
}

func refRuleMatches(r *engine.Rule, kind []string, state map[interface{}]interface{}) bool {
	km := false
	for _, p := range r.KindMatch {
		if refKindMatch(p, kind) {
			km = true
		}
	}
	return km && refStateMatch(r.StateMatch, state)
}

// refScopeAllowed: the flag of the longest explicitly defined prefix decides.
func refScopeAllowed(defs map[string]bool, path string) bool {
	segs := strings.Split(path, ".")
	allowed := defs[""]
	for i := 1; i <= len(segs); i++ {
		if f, ok := defs[strings.Join(segs[:i], ".")]; ok {
			allowed = f
		} else {
			// a prefix without flag only continues the walk if a longer defined path goes through it
			through := false
			pre := strings.Join(segs[:i], ".") + "."
			for d := range defs {
				if strings.HasPrefix(d, pre) {
					through = true
				}
			}
			if !through {
				break
			}
		}
	}
	return allowed
}

// alphabets -----------------------------------------------------------------

func c01Patterns(maxLen int) []string {
	var out []string
	var rec func(cur []string)
	rec = func(cur []string) {
		if len(cur) > 0 {
			out = append(out, strings.Join(cur, "."))
		}
		if len(cur) == maxLen {
			return
		}
		for _, s := range []string{"a", "b", "*"} {
			rec(append(cur, s))
		}
	}
	rec(nil)
	return out
}

func c01Kinds(maxLen int) [][]string {
	var out [][]string
	var rec func(cur []string)
	rec = func(cur []string) {
		if len(cur) > 0 {
			out = append(out, append([]string{}, cur...))
		}
		if len(cur) == maxLen {
			return
		}
		for _, s := range []string{"a", "b"} {
			rec(append(cur, s))
		}
	}
	rec(nil)
	return out
}

type c01Val struct {
	name     string
	v        func() interface{}
	hashable bool
}

var c01Absent = c01Val{name: "absent"}

// required values of a state pattern
var c01Req = []c01Val{
	c01Absent,
	{"NULL", func() interface{} { return nil }, true},
	{"1", func() interface{} { return float64(1) }, true},
	{"x", func() interface{} { return "x" }, true},
	{"re^x", func() interface{} { return regexp.MustCompile("^x") }, true},
	{"[1]", func() interface{} { return []interface{}{float64(1)} }, false},
	{"{a:1}", func() interface{} { return map[interface{}]interface{}{"a": float64(1)} }, false},
}

// values of an event state
var c01Have = []c01Val{
	c01Absent,
	{"nil", func() interface{} { return nil }, true},
	{"1", func() interface{} { return float64(1) }, true},
	{"2", func() interface{} { return float64(2) }, true},
	{"x", func() interface{} { return "x" }, true},
	{"xy", func() interface{} { return "xy" }, true},
	{"[1]", func() interface{} { return []interface{}{float64(1)} }, false},
	{"{a:1}", func() interface{} { return map[interface{}]interface{}{"a": float64(1)} }, false},
}

func c01StateSpec(ik, il int) (map[string]interface{}, string) {
	if ik == 0 && il == 0 {
		return nil, "none"
	}
	if ik < 0 || il < 0 {
		// a state pattern that is present but has no requirement (statematch {})
		return map[string]interface{}{}, "{}"
	}
	m := map[string]interface{}{}
	if ik > 0 {
		m["k"] = c01Req[ik].v()
	}
	if il > 0 {
		m["l"] = c01Req[il].v()
	}
	return m, fmt.Sprintf("{k:%s,l:%s}", c01Req[ik].name, c01Req[il].name)
}

func c01EventState(ik, il int) (map[interface{}]interface{}, string) {
	if ik < 0 || il < 0 {
		return nil, "nil" // an event without any state
	}
	m := map[interface{}]interface{}{}
	if ik > 0 {
		m["k"] = c01Have[ik].v()
	}
	if il > 0 {
		m["l"] = c01Have[il].v()
	}
	return m, fmt.Sprintf("{k:%s,l:%s}", c01Have[ik].name, c01Have[il].name)
}

func ruleNames(rs []*engine.Rule) string {
	var n []string
	for _, r := range rs {
		n = append(n, r.Name)
	}
	sort.Strings(n)
	return strings.Join(n, ",")
}

// level 1: the rule index alone -----------------------------------------------

type c01RuleSpec struct {
	name   string
	kinds  []string
	ik, il int
}

// snapshot renders everything reachable from v, including the spare capacity of
// slices and unexported fields: Match and IsTriggering are called by several
// workers without a lock, so they must not write to the shared index.
func snapshot(v interface{}) string {
	var b strings.Builder
	seen := map[uintptr]bool{}
	var walk func(rv reflect.Value, depth int)
	walk = func(rv reflect.Value, depth int) {
		if depth > 40 {
			return
		}
		if rv.Kind() != reflect.Invalid && !rv.CanInterface() && rv.CanAddr() {
			rv = reflect.NewAt(rv.Type(), unsafe.Pointer(rv.UnsafeAddr())).Elem()
		}
		switch rv.Kind() {
		case reflect.Invalid:
			b.WriteString("nil;")
		case reflect.Ptr, reflect.Interface:
			if rv.IsNil() {
				b.WriteString("nil;")
				return
			}
			if rv.Kind() == reflect.Ptr {
				if seen[rv.Pointer()] {
					fmt.Fprintf(&b, "@%d;", rv.Pointer())
					return
				}
				seen[rv.Pointer()] = true
				if rv.Type().String() == "*regexp.Regexp" || rv.Type().String() == "*engine.Rule" {
					fmt.Fprintf(&b, "%s@%d;", rv.Type(), rv.Pointer())
					return
				}
			}
			walk(rv.Elem(), depth+1)
		case reflect.Struct:
			b.WriteString("{")
			for i := 0; i < rv.NumField(); i++ {
				f := rv.Field(i)
				if !f.CanInterface() {
					if !f.CanAddr() {
						// copy into an addressable value
						cp := reflect.New(rv.Type()).Elem()
						cp.Set(rv)
						f = cp.Field(i)
					}
					f = reflect.NewAt(f.Type(), unsafe.Pointer(f.UnsafeAddr())).Elem()
				}
				walk(f, depth+1)
			}
			b.WriteString("}")
		case reflect.Slice:
			if rv.IsNil() {
				b.WriteString("nilslice;")
				return
			}
			fmt.Fprintf(&b, "[len%d cap%d:", rv.Len(), rv.Cap())
			full := rv.Slice(0, rv.Cap())
			for i := 0; i < full.Len(); i++ {
				walk(full.Index(i), depth+1)
			}
			b.WriteString("]")
		case reflect.Map:
			keys := rv.MapKeys()
			var ks []string
			km := map[string]reflect.Value{}
			for _, k := range keys {
				s := fmt.Sprintf("%v", k)
				ks = append(ks, s)
				km[s] = k
			}
			sort.Strings(ks)
			b.WriteString("map{")
			for _, k := range ks {
				b.WriteString(k + ":")
				walk(rv.MapIndex(km[k]), depth+1)
			}
			b.WriteString("}")
		case reflect.Func:
			b.WriteString("func;")
		default:
			fmt.Fprintf(&b, "%v;", rv)
		}
	}
	walk(reflect.ValueOf(v), 0)
	return b.String()
}

func c01IndexCase(c *Ctx, specs []c01RuleSpec, kinds [][]string, evStates [][2]int) {
	var desc []string
	idx := engine.NewRuleIndex()
	var rules []*engine.Rule
	for _, s := range specs {
		sm, sd := c01StateSpec(s.ik, s.il)
		r := &engine.Rule{Name: s.name, KindMatch: s.kinds, ScopeMatch: []string{}, StateMatch: sm}
		rules = append(rules, r)
		desc = append(desc, fmt.Sprintf("%s kind=%v state=%s", s.name, s.kinds, sd))
		var err error
		if pk, pm := Guard(func() { err = idx.AddRule(r) }); pk != "" {
			c.Begin(strings.Join(desc, "; "))
			c.Viol("addrule-"+pk, fmt.Sprintf("AddRule(%s) panics: %s", strings.Join(desc, "; "), pm), strings.Join(desc, "; "))
			return
		}
		if err != nil {
			return
		}
	}
	rdesc := strings.Join(desc, "; ")
	before := snapshot(idx)
	defer func() {
		if after := snapshot(idx); after != before {
			c.Viol("match-writes-to-the-shared-index", fmt.Sprintf("rules [%s]: Match / IsTriggering changed the rule index (including spare slice capacity); workers call them concurrently without a lock, so a matching run can be corrupted by another", rdesc), rdesc)
		}
	}()
	for _, kind := range kinds {
		for _, es := range evStates {
			st, sd := c01EventState(es[0], es[1])
			input := fmt.Sprintf("rules [%s] event kind=%s state=%s", rdesc, strings.Join(kind, "."), sd)
			c.Begin(input)
			ev := engine.NewEvent("e", kind, st)
			var want []*engine.Rule
			for _, r := range rules {
				if refRuleMatches(r, kind, st) {
					want = append(want, r)
				}
			}
			var got []*engine.Rule
			var trig bool
			if pk, pm := Guard(func() { got = idx.Match(ev); trig = idx.IsTriggering(ev) }); pk != "" {
				c.Viol("match-"+pk, fmt.Sprintf("%s: Match panics: %s", input, pm), input)
				continue
			}
			if len(want) > 0 {
				c.Nontrivial()
			}
			if ruleNames(got) != ruleNames(want) {
				k := "index-match-differs"
				if len(got) > len(want) && func() bool {
					seen := map[string]bool{}
					for _, r := range got {
						if seen[r.Name] {
							return true
						}
						seen[r.Name] = true
					}
					return false
				}() {
					k = "rule-matched-twice (two of its kind patterns match the event)"
				}
				c.Viol(k, fmt.Sprintf("%s: Match returns [%s], the matching rules are [%s]", input, ruleNames(got), ruleNames(want)), input)
				continue
			}
			if len(want) > 0 && !trig {
				c.Viol("not-triggering-although-a-rule-matches", input+": IsTriggering is false", input)
				continue
			}
			if len(want) > 0 {
				c.Outcome("matched")
			} else {
				c.Outcome("no-match")
			}
		}
	}
}

func allEvStates() [][2]int {
	var out [][2]int
	for i := range c01Have {
		for j := range c01Have {
			out = append(out, [2]int{i, j})
		}
	}
	return out
}

func c01Index(c *Ctx) {
	maxLen := 2
	if c.Thorough() {
		maxLen = 3
	}
	pats := c01Patterns(maxLen)
	kinds := c01Kinds(3)
	evs := allEvStates()
	// a state pattern without requirement (statematch {}) next to rules with and
	// without requirements, against events with no state at all, an empty state
	// and states with keys
	evsNil := append([][2]int{{-1, -1}}, evs...)
	for _, p := range pats {
		if c.Mine() {
			c01IndexCase(c, []c01RuleSpec{{"r1", []string{p}, -1, -1}}, kinds, evsNil)
			c01IndexCase(c, []c01RuleSpec{{"r1", []string{p}, -1, -1}, {"r2", []string{p}, 2, 0}, {"r3", []string{p}, 0, 0}}, kinds, evsNil)
			c01IndexCase(c, []c01RuleSpec{{"r1", []string{p}, 2, 1}, {"r2", []string{p}, -1, -1}}, kinds, evsNil)
		}
	}
	// single rule, one pattern, every state spec
	for _, p := range pats {
		for ik := range c01Req {
			for il := range c01Req {
				if c.Stopped() {
					return
				}
				if c.Mine() {
					c01IndexCase(c, []c01RuleSpec{{"r1", []string{p}, ik, il}}, kinds, evs)
				}
			}
		}
	}
	// single rule with two patterns (overlapping / duplicate)
	for _, p := range pats {
		for _, q := range pats {
			if c.Stopped() {
				return
			}
			if c.Mine() {
				c01IndexCase(c, []c01RuleSpec{{"r1", []string{p, q}, 0, 0}}, kinds, [][2]int{{0, 0}})
				c01IndexCase(c, []c01RuleSpec{{"r1", []string{p, q}, 2, 0}}, kinds, [][2]int{{0, 0}, {2, 0}, {3, 0}})
			}
		}
	}
	// pairs of rules sharing a leaf, all state spec pairs over hashable values
	for _, p := range []string{"a", "*", "a.b"} {
		for ik := 0; ik < 5; ik++ {
			for il := 0; il < 5; il++ {
				for jk := 0; jk < 5; jk++ {
					for jl := 0; jl < 5; jl++ {
						if c.Stopped() {
							return
						}
						if c.Mine() {
							c01IndexCase(c, []c01RuleSpec{{"r1", []string{p}, ik, il}, {"r2", []string{p}, jk, jl}}, [][]string{{"a"}, {"a", "b"}}, evs)
						}
					}
				}
			}
		}
	}
	// triples: a wildcard sub-index next to two exact siblings on the same level
	for _, tail := range []string{"", ".a", ".*"} {
		if c.Mine() {
			c01IndexCase(c, []c01RuleSpec{{"r1", []string{"*" + tail}, 0, 0}, {"r2", []string{"a" + tail}, 0, 0}, {"r3", []string{"b" + tail}, 2, 0}}, kinds, [][2]int{{0, 0}, {2, 0}})
			c01IndexCase(c, []c01RuleSpec{{"r1", []string{"*" + tail}, 2, 0}, {"r2", []string{"a" + tail}, 0, 0}, {"r3", []string{"b" + tail}, 0, 0}}, kinds, [][2]int{{0, 0}, {2, 0}})
		}
	}
	// pairs of rules with different patterns (wildcards at any level)
	for _, p := range pats {
		for _, q := range pats {
			if c.Stopped() {
				return
			}
			if c.Mine() {
				c01IndexCase(c, []c01RuleSpec{{"r1", []string{p}, 0, 0}, {"r2", []string{q}, 2, 0}}, kinds, [][2]int{{0, 0}, {2, 0}, {3, 0}})
			}
		}
	}
}

// level 3: leaf capacity ------------------------------------------------------

func c01Capacity(c *Ctx) {
	for _, n := range []int{1, 2, 31, 32, 33, 63, 64, 65, 70, 130} {
		if !c.Mine() {
			continue
		}
		idx := engine.NewRuleIndex()
		for i := 0; i < n; i++ {
			idx.AddRule(&engine.Rule{Name: fmt.Sprintf("r%d", i), KindMatch: []string{"a"}, ScopeMatch: []string{},
				StateMatch: map[string]interface{}{"k": float64(i)}})
		}
		for i := 0; i < n; i++ {
			input := fmt.Sprintf("%d state rules on kind a (rule i requires k == i); event with k == %d", n, i)
			c.Risky(input)
			c.Nontrivial()
			ev := engine.NewEvent("e", []string{"a"}, map[interface{}]interface{}{"k": float64(i)})
			var got []*engine.Rule
			if pk, pm := Guard(func() { got = idx.Match(ev) }); pk != "" {
				c.Viol("capacity-"+pk, input+": "+pm, input)
				continue
			}
			if ruleNames(got) != fmt.Sprintf("r%d", i) {
				k := "state-rule-beyond-64-never-matches"
				if i < 64 {
					k = "state-rule-capacity-wrong-match"
				}
				c.Viol(k, fmt.Sprintf("%s: Match returns [%s], expected [r%d]", input, ruleNames(got), i), input)
			} else {
				c.Outcome("matched")
			}
		}
	}
}

// level 2: processor — scopes, suppression, event histories -------------------

type c01Fire struct{ ev, rule string }

func c01Processor(c *Ctx) {
	type rspec struct {
		kinds    []string
		scope    []string
		suppress []string
		ik       int
	}
	ruleSets := [][]rspec{
		{{[]string{"a"}, []string{}, nil, 0}},
		{{[]string{"a"}, []string{}, nil, 0}, {[]string{"a"}, []string{}, []string{"r0"}, 0}},
		{{[]string{"a"}, []string{"s"}, nil, 0}, {[]string{"*"}, []string{}, []string{"r0"}, 0}},
		{{[]string{"a"}, []string{}, nil, 0}, {[]string{"a"}, []string{"s.t"}, []string{"r0"}, 0}},
		{{[]string{"a.b"}, []string{"s", "s.t"}, nil, 0}, {[]string{"a.*"}, []string{}, nil, 2}, {[]string{"*.b"}, []string{"s"}, []string{"r1"}, 0}},
		{{[]string{"a", "a"}, []string{}, nil, 0}},
		{{[]string{"a", "*"}, []string{}, nil, 0}, {[]string{"b"}, []string{}, []string{"r0"}, 0}},
		{{[]string{"b"}, []string{}, nil, 0}},
		{{[]string{"a"}, []string{}, nil, 2}, {[]string{"a"}, []string{}, []string{"r0"}, 3}},
		{{[]string{"a.b"}, []string{}, nil, 0}, {[]string{"a"}, []string{}, nil, 0}},
	}
	scopes := []map[string]bool{{"": true}, {"": false}, {"s": true}, {"s": true, "s.t": false}, {"": true, "s": false}}
	type evspec struct {
		name string
		kind []string
		ik   int
	}
	evAlpha := []evspec{{"n1", []string{"a"}, 0}, {"n1", []string{"b"}, 0}, {"n2", []string{"a"}, 2}, {"n1", []string{"a", "b"}, 0}, {"n2", []string{"c"}, 0}, {"n1", []string{"a"}, 4}}
	maxHist := 2
	if c.Thorough() {
		maxHist = 3
	}
	var hists [][]int
	var rec func(cur []int)
	rec = func(cur []int) {
		if len(cur) > 0 {
			hists = append(hists, append([]int{}, cur...))
		}
		if len(cur) == maxHist {
			return
		}
		for i := range evAlpha {
			rec(append(cur, i))
		}
	}
	rec(nil)
	for si, set := range ruleSets {
		for sci, sc := range scopes {
			for _, h := range hists {
				if c.Stopped() {
					return
				}
				if !c.Mine() {
					continue
				}
				var fired []c01Fire
				cur := ""
				proc := engine.NewProcessor(1)
				var rules []*engine.Rule
				for i, rs := range set {
					sm, _ := c01StateSpec(rs.ik, 0)
					name := fmt.Sprintf("r%d", i)
					r := &engine.Rule{Name: name, KindMatch: rs.kinds, ScopeMatch: rs.scope, StateMatch: sm, SuppressionList: rs.suppress,
						Action: func(p engine.Processor, m engine.Monitor, e *engine.Event, tid uint64) error {
							fired = append(fired, c01Fire{cur, name})
							return nil
						}}
					rules = append(rules, r)
					proc.AddRule(r)
				}
				proc.Start()
				var hd []string
				for _, ei := range h {
					hd = append(hd, fmt.Sprintf("%s:%s%s", evAlpha[ei].name, strings.Join(evAlpha[ei].kind, "."), map[bool]string{true: "{k:" + c01Have[evAlpha[ei].ik].name + "}", false: ""}[evAlpha[ei].ik > 0]))
				}
				input := fmt.Sprintf("ruleset %d scope %v events %v", si, sc, hd)
				c.Begin(input)
				_ = sci
				for step, ei := range h {
					e := evAlpha[ei]
					st, _ := c01EventState(e.ik, 0)
					// reference
					var trig []*engine.Rule
					for _, r := range rules {
						if !refRuleMatches(r, e.kind, st) {
							continue
						}
						ok := true
						for _, sp := range r.ScopeMatch {
							if !refScopeAllowed(sc, sp) {
								ok = false
							}
						}
						if ok {
							trig = append(trig, r)
						}
					}
					supp := map[string]bool{}
					for _, r := range trig {
						for _, s := range r.SuppressionList {
							supp[s] = true
						}
					}
					var want []string
					for _, r := range trig {
						if !supp[r.Name] {
							want = append(want, r.Name)
						}
					}
					sort.Strings(want)
					cur = fmt.Sprintf("step%d", step)
					fired = fired[:0]
					rm := proc.NewRootMonitor(nil, engine.NewRuleScope(sc))
					var mon engine.Monitor
					if pk, pm := Guard(func() { mon, _ = proc.AddEventAndWait(engine.NewEvent(e.name, e.kind, st), rm) }); pk != "" {
						c.Viol("process-"+pk, input+": "+pm, input)
						break
					}
					var got []string
					for _, f := range fired {
						got = append(got, f.rule)
					}
					sort.Strings(got)
					if len(want) > 0 {
						c.Nontrivial()
					}
					if strings.Join(got, ",") != strings.Join(want, ",") {
						k := "fired-set-differs"
						if len(got) == 0 && len(want) > 0 && mon == nil {
							k = "triggering-event-skipped (an event of the same name was added before)"
							if step == 0 {
								k = "triggering-event-skipped"
							}
						} else if len(got) > len(want) {
							k = "rule-fired-twice (two of its kind patterns match the event)"
							seen := map[string]bool{}
							dup := false
							for _, g := range got {
								if seen[g] {
									dup = true
								}
								seen[g] = true
							}
							if !dup {
								k = "fired-set-differs"
							}
						}
						c.Viol(k, fmt.Sprintf("%s: event %d fired [%s], expected [%s] (monitor nil: %v)", input, step, strings.Join(got, ","), strings.Join(want, ","), mon == nil), input)
						break
					}
					if len(want) > 0 {
						c.Outcome("fired")
					} else {
						c.Outcome("nothing-to-fire")
					}
				}
				proc.Finish()
			}
		}
	}
}

// scope rules: every scope definition set x every requirement list ---------------

func c01Scopes(c *Ctx) {
	paths := []string{"", "s", "s.t", "s.t.u", "x"}
	reqs := []string{"", "s", "s.t", "s.t.u", "s.x", "s.t.x", "x", "y"}
	n := 1
	for range paths {
		n *= 3
	}
	for code := 0; code < n; code++ {
		if c.Stopped() {
			return
		}
		if !c.Mine() {
			continue
		}
		defs := map[string]bool{}
		x := code
		for _, p := range paths {
			switch x % 3 {
			case 1:
				defs[p] = true
			case 2:
				defs[p] = false
			}
			x /= 3
		}
		rs := engine.NewRuleScope(defs)
		for i, r1 := range reqs {
			for _, r2 := range reqs[i:] {
				req := []string{r1}
				if r2 != r1 {
					req = append(req, r2)
				}
				input := fmt.Sprintf("cascade scope %v, rule requires %v", defs, req)
				c.Begin(input)
				want := true
				for _, r := range req {
					if !refScopeAllowed(defs, r) {
						want = false
					}
				}
				var got bool
				if pk, pm := Guard(func() { got = rs.IsAllowedAll(req) }); pk != "" {
					c.Viol("scope-"+pk, input+": "+pm, input)
					continue
				}
				c.Nontrivial()
				if got != want {
					c.Viol("scope-decision-differs", fmt.Sprintf("%s: IsAllowedAll = %v, the most specific defined prefix of every required path gives %v", input, got, want), input)
					continue
				}
				if want {
					c.Outcome("in-scope")
				} else {
					c.Outcome("out-of-scope")
				}
				// the same through the processor: the rule fires iff in scope
				if r2 == r1 && code%7 == 0 {
					fired := 0
					proc := engine.NewProcessor(1)
					proc.AddRule(&engine.Rule{Name: "r", KindMatch: []string{"a"}, ScopeMatch: req,
						Action: func(p engine.Processor, m engine.Monitor, e *engine.Event, tid uint64) error { fired++; return nil }})
					proc.Start()
					proc.AddEventAndWait(engine.NewEvent("e", []string{"a"}, nil), proc.NewRootMonitor(nil, engine.NewRuleScope(defs)))
					proc.Finish()
					if (fired == 1) != want || fired > 1 {
						c.Viol("scope-filter-in-processor-differs", fmt.Sprintf("%s: rule fired %d time(s), expected in scope = %v", input, fired, want), input)
					}
				}
			}
		}
	}
}

func init() {
	register(&Part{Prop: "C01", Name: "scope-rules", Quick: 8, Thor: 8,
		Desc: "every cascade scope definition set over the paths {\"\", s, s.t, s.t.u, x} (each absent / allowed / denied: 243 sets, including sets with flagless intermediate nodes) x every requirement list of one or two paths over {\"\", s, s.t, s.t.u, s.x, s.t.x, x, y} through RuleScope.IsAllowedAll, and a seventh of them through the real processor",
		Rule: "full product; every case non-trivial; reference: the flag of the most specific explicitly defined prefix of each required path decides, default denied",
		Run:  func(c *Ctx) { c01Scopes(c); c.Sample("cascade scope map[s:true s.t.u:false], rule requires [s.t]") }})
	register(&Part{Prop: "C01", Name: "rule-index", Quick: 16, Thor: 32,
		Desc: "RuleIndex.Match / IsTriggering: single rules with every kind pattern over {a, b, *} of length <= 2 (thorough 3) x every state pattern over keys {k, l} with required values {absent, NULL, 1, \"x\", regexp ^x, [1], {\"a\":1}}; rules with two kind patterns (overlapping, duplicate); pairs of rules sharing a leaf with all hashable state-pattern pairs; pairs with different patterns; against every event kind of length 1-3 over {a, b} x 64 event states",
		Rule: "odometer over rule specs x events; non-trivial = at least one rule matches by the independent reference matcher",
		Run: func(c *Ctx) {
			c01Index(c)
			c.Sample("rules [r1 kind=[a *] state=none] event kind=a state={k:absent,l:absent}")
		}})
	register(&Part{Prop: "C01", Name: "leaf-capacity", Quick: 1, Thor: 1,
		Desc: "n in {1, 2, 31, 32, 33, 63, 64, 65, 70, 130} state rules on one kind, every single rule probed with the one event that matches it",
		Rule: "every rule of every size probed; all cases non-trivial",
		Run:  c01Capacity})
	register(&Part{Prop: "C01", Name: "processor-histories", Quick: 8, Thor: 16,
		Desc: "real Processor with 1 worker: 10 rule sets (scope requirements, suppression lists, overlapping and duplicate kind patterns, state patterns) x 5 cascade scopes x every history of <= 2 (thorough 3) events over 6 events (same and different names and kinds); the set of rules fired per event must equal the reference (matching, in scope, unsuppressed), each once",
		Rule: "rule sets x scopes x event histories (breadth-first over histories; the trigger cache is the hidden state); non-trivial = the reference fires at least one rule",
		Run: func(c *Ctx) {
			c01Processor(c)
			c.Sample("ruleset 2 scope map[s:true] events [n1:b n1:a]")
		}})
}

// (7) the same decision reached from ECAL: sinks with scopematch, events added
// with a scope map as fourth argument of addEvent / addEventAndWait.
func c01EcalScopes(c *Ctx) {
	paths := []string{"", "s", "s.t", "x"}
	reqs := []string{"", "s", "s.t", "s.t.u", "s.x", "x", "y"}
	n := 1
	for range paths {
		n *= 3
	}
	for code := 0; code < n; code++ {
		if c.Stopped() {
			return
		}
		if !c.Mine() {
			continue
		}
		defs := map[string]bool{}
		var lit []string
		x := code
		for _, p := range paths {
			switch x % 3 {
			case 1:
				defs[p] = true
				lit = append(lit, fmt.Sprintf("%q: true", p))
			case 2:
				defs[p] = false
				lit = append(lit, fmt.Sprintf("%q: false", p))
			}
			x /= 3
		}
		// one sink per requirement, plus one with two requirements and one without scopematch
		var src strings.Builder
		var want []string
		for i, r := range reqs {
			fmt.Fprintf(&src, "sink s%d\n  kindmatch [\"k\"],\n  scopematch [%q],\n  {\n    hit(\"s%d\")\n  }\n", i, r, i)
			if refScopeAllowed(defs, r) {
				want = append(want, fmt.Sprintf("s%d", i))
			}
		}
		fmt.Fprintf(&src, "sink two\n  kindmatch [\"k\"],\n  scopematch [\"s\", \"x\"],\n  {\n    hit(\"two\")\n  }\nsink none\n  kindmatch [\"k\"],\n  {\n    hit(\"none\")\n  }\n")
		if refScopeAllowed(defs, "s") && refScopeAllowed(defs, "x") {
			want = append(want, "two")
		}
		want = append(want, "none")
		sort.Strings(want)
		for _, call := range []string{"addEventAndWait", "addEvent"} {
			prog := src.String() + fmt.Sprintf("%s(\"e\", \"k\", {}, {%s})\n", call, strings.Join(lit, ", "))
			c.Begin(prog)
			var mu sync.Mutex
			var hits []string
			var erpRef *interpreter.ECALRuntimeProvider
			out := evalECAL(prog, evalOpts{budget: 100000, setup: func(vs parser.Scope, erp *interpreter.ECALRuntimeProvider) {
				erpRef = erp
				vs.SetValue("hit", &hfunc{func(args []interface{}) (interface{}, error) {
					mu.Lock()
					hits = append(hits, fmt.Sprint(args[0]))
					mu.Unlock()
					return nil, nil
				}})
			}})
			if erpRef != nil {
				erpRef.Processor.Finish() // waits for queued events (addEvent does not wait)
			}
			if out.panicKey != "" || out.err != nil {
				c.Viol("ecal scope program fails", fmt.Sprintf("%v %v\n%s", out.panicKey, out.err, prog), prog)
				continue
			}
			c.Nontrivial()
			mu.Lock()
			got := append([]string{}, hits...)
			mu.Unlock()
			sort.Strings(got)
			if fmt.Sprint(got) != fmt.Sprint(want) {
				c.Viol("ecal-scope-decision-differs", fmt.Sprintf("%s with scope {%s}: sinks fired %v, expected %v (sink s<i> requires %v)", call, strings.Join(lit, ", "), got, want, reqs), prog)
				continue
			}
			c.Outcome("fired-set-equal")
		}
	}
	c.Sample("sink s1 kindmatch [\"k\"], scopematch [\"s\"], {...}; addEventAndWait(\"e\", \"k\", {}, {\"\": true, \"s\": false}) fires only sinks not requiring s")
}

func init() {
	register(&Part{Prop: "C01", Name: "ecal-scopes", Quick: 2, Thor: 2,
		Desc: "the scope decision reached from ECAL: 7 sinks with one scopematch requirement each (from {\"\", s, s.t, s.t.u, s.x, x, y}), one with two, one without, x every scope map over {\"\", s, s.t, x} -> {absent, true, false} (81 maps) given as fourth argument of addEventAndWait and of addEvent: the sinks that fire must be exactly those the lexical scope rule allows",
		Rule: "81 scope maps x 2 functions; every case non-trivial",
		Run:  c01EcalScopes})
}

// (8) rule sets that change over the life of a processor: events, then Finish,
// more rules, Start, the same events again. What fires for an event depends on
// the rules registered at that moment only - whatever the processor remembered
// about earlier events (its triggering cache) must not leak across AddRule.
func c01Restart(c *Ctx) {
	patterns := []string{"a.b.c", "a.*.c", "*.b.c", "a.b.*", "*.*.c", "a.*", "*", "a.*.*", "x.b.c"}
	kinds := [][]string{{"a", "b", "c"}, {"a", "x", "c"}, {"a", "b"}, {"x", "b", "c"}, {"a"}}
	for i1 := -1; i1 < len(patterns); i1++ { // -1: no rule at first
		for i2 := range patterns {
			if i1 == i2 {
				continue
			}
			if !c.Mine() {
				continue
			}
			for _, reset := range []bool{false} {
				_ = reset
				input := fmt.Sprintf("rules first %v, after restart + %q", map[bool]string{true: "none", false: ""}[i1 < 0]+func() string {
					if i1 >= 0 {
						return patterns[i1]
					}
					return ""
				}(), patterns[i2])
				c.Begin(input)
				proc := engine.NewProcessor(1)
				var fired []string
				cur := ""
				var rules []*engine.Rule
				add := func(name, pat string) {
					r := &engine.Rule{Name: name, KindMatch: []string{pat}, ScopeMatch: []string{},
						Action: func(p engine.Processor, m engine.Monitor, e *engine.Event, tid uint64) error {
							fired = append(fired, cur+":"+name)
							return nil
						}}
					rules = append(rules, r)
					proc.AddRule(r)
				}
				if i1 >= 0 {
					add("r1", patterns[i1])
				}
				var want []string
				runEvents := func(phase string) bool {
					for ki, kind := range kinds {
						cur = fmt.Sprintf("%s-e%d", phase, ki)
						for _, r := range rules {
							if refRuleMatches(r, kind, nil) {
								want = append(want, cur+":"+r.Name)
							}
						}
						var pk, pm string
						pk, pm = Guard(func() {
							proc.AddEventAndWait(engine.NewEvent(cur, kind, nil), nil)
						})
						if pk != "" {
							c.Viol("restart-"+pk, input+": "+pm, input)
							return false
						}
					}
					return true
				}
				proc.Start()
				ok := runEvents("p1")
				proc.Finish()
				if ok {
					add("r2", patterns[i2])
					proc.Start()
					ok = runEvents("p2")
					proc.Finish()
				}
				if !ok {
					continue
				}
				c.Nontrivial()
				sort.Strings(want)
				got := append([]string{}, fired...)
				sort.Strings(got)
				if fmt.Sprint(got) != fmt.Sprint(want) {
					c.Viol("fired-set-differs-after-rule-change", fmt.Sprintf("%s: events of kinds %v before and after; fired %v, expected %v", input, kinds, got, want), input)
					continue
				}
				c.Outcome("fired-set-equal")
			}
		}
	}
	c.Sample("no rule, event a.x.c (not triggering); Finish; AddRule a.*.c; Start; event a.x.c fires the rule")
}

func init() {
	register(&Part{Prop: "C01", Name: "rules-added-after-restart", Quick: 2, Thor: 2,
		Desc: "a processor with no rule or one rule (kind pattern from 9 patterns with wildcards in every position) processes events of 5 kinds, is finished, gets a second rule (another of the 9 patterns), is started again and processes the same kinds: the rules fired per event must be exactly the rules registered at that moment that match (90 rule histories x 10 events)",
		Rule: "ordered pairs of patterns incl. 'none first'; every case non-trivial",
		Run:  c01Restart})
}
