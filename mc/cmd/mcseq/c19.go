package main

import (
	"errors"
	"fmt"
	"math"
	"reflect"
	"strings"

	"github.com/krotik/ecal/interpreter"
	"github.com/krotik/ecal/parser"
	"github.com/krotik/ecal/scope"
	"github.com/krotik/ecal/stdlib"
	"github.com/krotik/ecal/util"
)

// ---------------------------------------------------------------------------
// C19 — the Go function bridge is total and converts numbers faithfully

type c19Fn struct {
	name string
	f    interface{}
	// ident: the function returns its single numeric argument unchanged; conv
	// converts a float64 to the parameter kind and back (the reference)
	ident bool
	conv  func(float64) (float64, bool)
}

func inRange(lo, hi float64, c func(float64) float64) func(float64) (float64, bool) {
	return func(x float64) (float64, bool) {
		if x != math.Trunc(x) || x < lo || x > hi {
			return 0, false // outside the range where Go's conversion is defined / exact
		}
		return c(x), true
	}
}

var c19Fns = []c19Fn{
	{"idInt", func(x int) int { return x }, true, inRange(-1<<63, 1<<63-1024, func(x float64) float64 { return float64(int(x)) })},
	{"idInt8", func(x int8) int8 { return x }, true, inRange(-128, 127, func(x float64) float64 { return float64(int8(x)) })},
	{"idInt16", func(x int16) int16 { return x }, true, inRange(-32768, 32767, func(x float64) float64 { return float64(int16(x)) })},
	{"idInt32", func(x int32) int32 { return x }, true, inRange(-1<<31, 1<<31-1, func(x float64) float64 { return float64(int32(x)) })},
	{"idInt64", func(x int64) int64 { return x }, true, inRange(-1<<63, 1<<63-1024, func(x float64) float64 { return float64(int64(x)) })},
	{"idUint", func(x uint) uint { return x }, true, inRange(0, 1<<64-2048, func(x float64) float64 { return float64(uint(x)) })},
	{"idUint8", func(x uint8) uint8 { return x }, true, inRange(0, 255, func(x float64) float64 { return float64(uint8(x)) })},
	{"idUint16", func(x uint16) uint16 { return x }, true, inRange(0, 65535, func(x float64) float64 { return float64(uint16(x)) })},
	{"idUint32", func(x uint32) uint32 { return x }, true, inRange(0, 1<<32-1, func(x float64) float64 { return float64(uint32(x)) })},
	{"idUint64", func(x uint64) uint64 { return x }, true, inRange(0, 1<<64-2048, func(x float64) float64 { return float64(uint64(x)) })},
	{"idUintptr", func(x uintptr) uintptr { return x }, true, inRange(0, 1<<64-2048, func(x float64) float64 { return float64(uintptr(x)) })},
	{"idFloat32", func(x float32) float32 { return x }, true, func(x float64) (float64, bool) { return float64(float32(x)), math.Abs(x) < 1e38 }},
	{"idFloat64", func(x float64) float64 { return x }, true, func(x float64) (float64, bool) { return x, true }},
	{"idString", func(x string) string { return x }, false, nil},
	{"idBool", func(x bool) bool { return x }, false, nil},
	{"idIface", func(x interface{}) interface{} { return x }, false, nil},
	{"sliceLen", func(x []interface{}) int { return len(x) }, false, nil},
	{"variadic", func(xs ...int) int { return len(xs) }, false, nil},
	{"errNil", func(x int) (int, error) { return x + 1, nil }, false, nil},
	{"errSet", func(x int) (int, error) { return 0, errors.New("go-error") }, false, nil},
	// every position a trailing error can have in a result list
	{"errOnlySet", func(x int) error { return errors.New("go-error") }, false, nil},
	{"errOnlyNil", func(x int) error { return nil }, false, nil},
	{"threeErrSet", func(x int) (int, string, error) { return x, "s", errors.New("go-error") }, false, nil},
	{"threeErrNil", func(x int) (int, string, error) { return x, "s", nil }, false, nil},
	{"twoResults", func(x int) (int, string) { return x, "s" }, false, nil},
	{"noResult", func(x int) {}, false, nil},
	{"noArgs", func() int { return 7 }, false, nil},
	{"panics", func(x int) int { panic("boom") }, false, nil},
	{"nilMapWrite", func(x int) int { var m map[string]int; m["a"] = x; return x }, false, nil},
	{"twoInts", func(a int, b uint8) float64 { return float64(a) + float64(b) }, false, nil},
	// the shape stdlib.AddStdlibPluginFunc wraps around a plugin function
	{"pluginStyle", func(a ...interface{}) (interface{}, error) {
		if len(a) > 0 {
			if s, ok := a[0].(string); ok && s == "a" {
				return nil, errors.New("plugin-error")
			}
		}
		return float64(len(a)), nil
	}, false, nil},
	{"mapParam", func(m map[interface{}]interface{}) int { return len(m) }, false, nil},
	{"ptrResult", func(x int) *int { return nil }, false, nil},
}

func c19CheckResult(c *Ctx, fn string, input string, ret interface{}, err error) bool {
	if err != nil {
		if strings.TrimSpace(err.Error()) == "" {
			c.Viol("empty-error", input+": error without description", input)
			return false
		}
		return true
	}
	// every Go integer/float must arrive as float64
	var bad func(v interface{}) string
	bad = func(v interface{}) string {
		switch x := v.(type) {
		case nil, float64, string, bool, map[interface{}]interface{}:
			return ""
		case []interface{}:
			for _, e := range x {
				if b := bad(e); b != "" {
					return b
				}
			}
			return ""
		}
		k := reflect.TypeOf(v).Kind()
		if k >= reflect.Int && k <= reflect.Float64 && k != reflect.Float64 {
			return fmt.Sprintf("%T", v)
		}
		return ""
	}
	var hasErr func(v interface{}) bool
	hasErr = func(v interface{}) bool {
		if _, ok := v.(error); ok {
			return true
		}
		if l, ok := v.([]interface{}); ok {
			for _, e := range l {
				if hasErr(e) {
					return true
				}
			}
		}
		return false
	}
	if hasErr(ret) {
		c.Viol("go-error-delivered-as-value", fmt.Sprintf("%s: the result %v contains a Go error object; a trailing Go error must arrive as the call's error", input, ret), input)
		return false
	}
	if b := bad(ret); b != "" {
		c.Viol("go-number-not-converted", fmt.Sprintf("%s: result contains a Go %s instead of an ECAL number", input, b), input)
		return false
	}
	return true
}

// c19Boundary: every integer kind's limits and their neighbours, the float64
// neighbours of 2^63 and 2^64 (the largest float below 2^63 is 2^63-1024, below
// 2^64 it is 2^64-2048), and a few fractions.
var c19Boundary = []float64{0, 1, -1, 0.5, -0.5, 127, 128, -128, -129, 255, 256, 32767, 32768, -32768, -32769, 65535, 65536,
	1<<31 - 1, 1 << 31, -1 << 31, -1<<31 - 1, 1<<32 - 1, 1 << 32, 1 << 53, 1<<53 + 2, -1 << 53, 1 << 62, 1<<63 - 1024, 1 << 63, 1<<63 + 2048,
	12345678901234567168, 1<<64 - 2048, -1 << 62, -1 << 63, 16777216, 16777217}

func init() {
	register(&Part{Prop: "C19", Name: "numeric-boundaries", Quick: 1, Thor: 1,
		Desc: "the 13 per-kind identity functions x 36 boundary numbers (every integer kind's limits and their neighbours, the float64 neighbours of 2^63 and 2^64): wherever Go's conversion float64 -> parameter kind is defined (integral value inside the kind's range) the function must receive exactly that value",
		Rule: "identity functions x boundary values; non-trivial = the value is inside the kind's exact range",
		Run: func(c *Ctx) {
			for _, fn := range c19Fns {
				if !fn.ident {
					continue
				}
				ad := stdlib.NewECALFunctionAdapter(reflect.ValueOf(fn.f), "doc")
				for _, x := range c19Boundary {
					if !c.Mine() {
						continue
					}
					input := fmt.Sprintf("%s(%v)", fn.name, x)
					c.Begin(input)
					var ret interface{}
					var err error
					if pk, pm := Guard(func() { ret, err = ad.Run("", nil, nil, 1, []interface{}{x}) }); pk != "" {
						c.Viol(pk, "panic escaped the adapter: "+pm, input)
						continue
					}
					if !c19CheckResult(c, fn.name, input, ret, err) {
						continue
					}
					want, def := fn.conv(x)
					if !def {
						c.Outcome("outside-the-kind's-range (unspecified)")
						continue
					}
					c.Nontrivial()
					if err != nil || ret != want {
						c.Viol("number-conversion:"+fn.name, fmt.Sprintf("%s: got %v / %v, expected %v", input, ret, err, want), input)
						continue
					}
					c.Outcome("converted-exactly")
				}
			}
			c.Sample("idUint64(1.8446744073709550e19) receives 18446744073709549568")
		}})
	register(&Part{Prop: "C19", Name: "synthetic-adapters", Quick: 8, Thor: 16,
		Desc: "29 synthetic Go functions (identity per numeric kind, string, bool, interface, slice, variadic, (T,error) nil/non-nil, two results, no result, no args, panicking, nil-map write, mixed ints) x every argument vector of length 0-3 (thorough 0-4) over the 24-value universe, through ECALFunctionAdapter.Run",
		Rule: "odometer over functions x argument vectors; non-trivial = the call returned a value (no error) or an identity function was called with an in-range number",
		Run: func(c *Ctx) {
			u := append(append([]uval{}, universe...), universeExtra...)
			maxLen := 3
			if c.Thorough() {
				maxLen = 4
			}
			for _, fn := range c19Fns {
				fn := fn
				ad := stdlib.NewECALFunctionAdapter(reflect.ValueOf(fn.f), "doc")
				vectors(u, maxLen, func(idx []int) bool {
					if !c.Mine() {
						return !c.Stopped()
					}
					input := fn.name + vecNames(u, idx)
					c.Begin(input)
					args := vecValues(u, idx)
					var ret interface{}
					var err error
					if pk, pm := Guard(func() { ret, err = ad.Run("", nil, nil, 1, args) }); pk != "" {
						c.Viol(pk, "panic escaped the adapter: "+pm, input)
						return true
					}
					if !c19CheckResult(c, fn.name, input, ret, err) {
						return true
					}
					if err == nil {
						c.Nontrivial()
						c.Outcome("value")
					} else {
						c.Outcome("error")
					}
					if fn.ident && len(idx) == 1 {
						if x, ok := args[0].(float64); ok {
							if want, def := fn.conv(x); def {
								if err != nil || ret != want {
									c.Viol("number-conversion:"+fn.name, fmt.Sprintf("%s: got %v / %v, expected %v", input, ret, err, want), input)
								}
							}
						}
					}
					switch fn.name {
					case "errSet", "errOnlySet", "threeErrSet":
						if len(idx) == 1 {
							if _, ok := args[0].(float64); ok && (err == nil || !strings.Contains(err.Error(), "go-error")) {
								c.Viol("go-error-not-delivered", fmt.Sprintf("%s: the function's trailing error did not arrive (got %v / %v)", input, ret, err), input)
							}
						}
					case "errOnlyNil", "threeErrNil":
						if len(idx) == 1 {
							if x, ok := args[0].(float64); ok && x == math.Trunc(x) && math.Abs(x) < 1e15 {
								want := "[]"
								if fn.name == "threeErrNil" {
									want = fmt.Sprintf("[%v s]", x)
								}
								got := fmt.Sprint(ret)
								if ret == nil {
									got = "[]"
								}
								if err != nil || got != want {
									c.Viol("result-wrong:"+fn.name, fmt.Sprintf("%s: got %v / %v, expected %s and no error", input, ret, err, want), input)
								}
							}
						}
					case "errNil":
						if len(idx) == 1 {
							if x, ok := args[0].(float64); ok && x == math.Trunc(x) && math.Abs(x) < 1e15 && (err != nil || ret != x+1) {
								c.Viol("result-wrong:errNil", fmt.Sprintf("%s: got %v / %v", input, ret, err), input)
							}
						}
					case "panics", "nilMapWrite":
						if len(idx) == 1 {
							if _, ok := args[0].(float64); ok && err == nil {
								c.Viol("go-panic-not-reported", input+": a panicking Go function returned no error", input)
							}
						}
					case "noArgs":
						if len(idx) == 0 && (err != nil || ret != float64(7)) {
							c.Viol("result-wrong:noArgs", fmt.Sprintf("%s: got %v / %v", input, ret, err), input)
						}
					}
					return true
				})
			}
			c.Sample("idInt8(255) -> error or float64(int8(255))")
			c.Sample("errSet(1) -> error 'go-error'")
		}})
	register(&Part{Prop: "C19", Name: "math-stdlib", Quick: 8, Thor: 16,
		Desc: "every function of the generated math stdlib x every argument vector of length 0-3 over the universe, through ECALFunctionAdapter.Run and, for vectors expressible as literals, through ECAL source (math.<fn>(args))",
		Rule: "odometer over stdlib functions x argument vectors; non-trivial = value returned",
		Run: func(c *Ctx) {
			u := append(append([]uval{}, universe...), universeExtra...)
			_, _, funcs := stdlib.GetStdlibSymbols()
			maxLen := 3
			nf := 0
			for _, name := range funcs {
				if !strings.HasPrefix(name, "math.") {
					continue
				}
				f, ok := stdlib.GetStdlibFunc(name)
				if !ok {
					continue
				}
				nf++
				vectors(u, maxLen, func(idx []int) bool {
					if !c.Mine() {
						return !c.Stopped()
					}
					input := name + vecNames(u, idx)
					if (name == "math.jn" || name == "math.yn") && len(idx) > 0 && (u[idx[0]].name == "2^31" || u[idx[0]].name == "2^53" || u[idx[0]].name == "1e300") {
						// Go's math.Jn/Yn run O(n) iterations: an order of 2^31 or more is
						// non-termination inside the bridged Go function, outside the property
						return true
					}
					c.Begin(input)
					var ret interface{}
					var err error
					if pk, pm := Guard(func() { ret, err = f.Run("", nil, nil, 1, vecValues(u, idx)) }); pk != "" {
						c.Viol(pk, "panic escaped the adapter: "+pm, input)
						return true
					}
					if !c19CheckResult(c, name, input, ret, err) {
						return true
					}
					if err == nil {
						c.Nontrivial()
						c.Outcome("value")
					} else {
						c.Outcome("error")
					}
					// through ECAL source (vectors of length <= 2)
					if len(idx) <= 2 {
						var srcArgs []string
						for _, i := range idx {
							srcArgs = append(srcArgs, u[i].src)
						}
						src := fmt.Sprintf("r := %s(%s)", name, strings.Join(srcArgs, ", "))
						c.Begin(src)
						erp := interpreter.NewECALRuntimeProvider("c19", nil, nil)
						erp.Cron.Stop()
						var ev interface{}
						var eerr error
						if pk, pm := Guard(func() {
							ast, err := parser.ParseWithRuntime("c19", src, erp)
							if err == nil {
								err = ast.Runtime.Validate()
							}
							if err != nil {
								eerr = err
								return
							}
							vs := scope.NewScope(scope.GlobalScope)
							_, eerr = ast.Runtime.Eval(vs, make(map[string]interface{}), erp.NewThreadID())
							ev, _, _ = vs.GetValue("r")
						}); pk != "" {
							c.Viol(pk, "panic while calling a bridged function from ECAL: "+pm, src)
							return true
						}
						if (eerr == nil) != (err == nil) {
							c.Viol("ecal-vs-adapter-verdict", fmt.Sprintf("%s: from ECAL %v / %v, directly %v / %v", src, ev, eerr, ret, err), src)
						} else if eerr == nil && render(ev) != render(ret) {
							c.Viol("ecal-vs-adapter-value", fmt.Sprintf("%s: from ECAL %v, directly %v", src, render(ev), render(ret)), src)
						}
					}
					return true
				})
			}
			c.Extra("math_functions", nf)
			c.Sample("math.sqrt(4) -> 2")
			c.Sample("math.pow(\"a\", null) -> error")
		}})
}

// ---------------------------------------------------------------------------
// one call site, several bridged functions: the function is selected by a name
// computed at run time (math[name](...)), so one syntax-tree node calls different
// Go functions on successive evaluations. Each call must reach the function its
// name denotes at that moment (reference: the adapter called directly).

func init() {
	register(&Part{Prop: "C19", Name: "computed-function-names", Quick: 1, Thor: 1,
		Desc: "every ordered pair and triple of names from {floor, ceil, abs, sqrt, trunc, pow, max, signbit} called through ONE call site math[n](args) in a loop and through a helper function, for args in {(2.5), (-1.5), (4), (2, 3), ()}: each result / error verdict must equal what ECALFunctionAdapter.Run gives for that name",
		Rule: "sequences of names x argument vectors x {loop, helper function}; every case non-trivial",
		Run: func(c *Ctx) {
			names := []string{"floor", "ceil", "abs", "sqrt", "trunc", "pow", "max", "signbit"}
			argSets := [][]float64{{2.5}, {-1.5}, {4}, {2, 3}, {}}
			direct := func(name string, args []float64) string {
				f, ok := stdlib.GetStdlibFunc("math." + name)
				if !ok {
					return "unknown"
				}
				var a []interface{}
				for _, x := range args {
					a = append(a, x)
				}
				ret, err := f.Run("", nil, nil, 1, a)
				if err != nil {
					return "error"
				}
				return render(ret)
			}
			var seqs [][]string
			for _, a := range names {
				for _, b := range names {
					seqs = append(seqs, []string{a, b})
					for _, d := range names {
						seqs = append(seqs, []string{a, b, d})
					}
				}
			}
			for _, seq := range seqs {
				for _, args := range argSets {
					if !c.Mine() {
						continue
					}
					var as, ns, want []string
					for _, x := range args {
						as = append(as, fmt.Sprint(x))
					}
					for _, n := range seq {
						ns = append(ns, fmt.Sprintf("%q", n))
						want = append(want, direct(n, args))
					}
					for _, form := range []string{
						"r := []\nfor n in [%s] {\n  try {\n    r := add(r, math[n](%s))\n  } except {\n    r := add(r, \"error\")\n  }\n}",
						"func call(n) {\n  try {\n    return math[n](%[2]s)\n  } except {\n    return \"error\"\n  }\n}\nr := []\nfor n in [%[1]s] {\n  r := add(r, call(n))\n}",
					} {
						src := fmt.Sprintf(form, strings.Join(ns, ", "), strings.Join(as, ", "))
						c.Begin(src)
						out := evalECAL(src, evalOpts{budget: 20000})
						if out.panicKey != "" || out.err != nil {
							c.Viol("computed-name program fails", fmt.Sprintf("%v %v\n%s", out.panicKey, out.err, src), src)
							continue
						}
						c.Nontrivial()
						v, _, _ := out.vs.GetValue("r")
						var got []string
						if l, ok := v.([]interface{}); ok {
							for _, e := range l {
								if s, isS := e.(string); isS && s == "error" {
									got = append(got, "error")
								} else {
									got = append(got, render(e))
								}
							}
						}
						if fmt.Sprint(got) != fmt.Sprint(want) {
							c.Viol("call through a computed name reaches the wrong function", fmt.Sprintf("names %v with arguments %v through one call site: results %v, the functions themselves give %v\n%s", seq, args, got, want, src), src)
							continue
						}
						c.Outcome("same-as-direct")
					}
				}
			}
			c.Sample(`for n in ["floor", "ceil"] { r := add(r, math[n](2.5)) }  ->  [2 3]`)
		}})
}

// ---------------------------------------------------------------------------
// a result handed to ECAL belongs to ECAL: later calls of bridged functions
// (the same or others) must not change a list that an earlier call returned.

func init() {
	register(&Part{Prop: "C19", Name: "results-are-not-shared", Quick: 1, Thor: 1,
		Desc: "every multi-result function (synthetic two / three results, math.frexp, math.modf, math.sincos, math.lgamma) called, its result list kept, then every synthetic and every math function called once (and the first function again with another argument): the kept list must still hold its values; also from ECAL source",
		Rule: "multi-result functions x follow-up functions; every case non-trivial",
		Run: func(c *Ctx) {
			type fn struct {
				name string
				ad   util.ECALFunction
			}
			var multi, all []fn
			for _, f := range c19Fns {
				ad := stdlib.NewECALFunctionAdapter(reflect.ValueOf(f.f), "doc")
				all = append(all, fn{f.name, ad})
				if f.name == "twoResults" || f.name == "threeErrNil" {
					multi = append(multi, fn{f.name, ad})
				}
			}
			for _, n := range []string{"frexp", "modf", "sincos", "lgamma", "sqrt", "floor", "pow"} {
				if f, ok := stdlib.GetStdlibFunc("math." + n); ok {
					all = append(all, fn{"math." + n, f})
					if n == "frexp" || n == "modf" || n == "sincos" || n == "lgamma" {
						multi = append(multi, fn{"math." + n, f})
					}
				}
			}
			for _, m := range multi {
				for _, f := range all {
					if !c.Mine() {
						continue
					}
					input := m.name + " then " + f.name
					c.Begin(input)
					var first interface{}
					var err error
					if pk, pm := Guard(func() { first, err = m.ad.Run("", nil, nil, 1, []interface{}{float64(8)}) }); pk != "" || err != nil {
						c.Viol("multi-result call fails", fmt.Sprintf("%s: %v %v %v", input, pk, pm, err), input)
						continue
					}
					before := render(first)
					Guard(func() {
						f.ad.Run("", nil, nil, 1, []interface{}{float64(3.25)})
						f.ad.Run("", nil, nil, 1, []interface{}{float64(3.25), float64(2)})
						m.ad.Run("", nil, nil, 1, []interface{}{float64(0.5)})
					})
					c.Nontrivial()
					if after := render(first); after != before {
						c.Viol("a returned result list is changed by a later bridged call", fmt.Sprintf("%s(8) returned %s; after calling %s and %s again the same list reads %s", m.name, before, f.name, m.name, after), input)
						continue
					}
					c.Outcome("result-kept")
				}
			}
			// the same from ECAL
			src := "a := math.frexp(8)\nb := math.sqrt(9)\nc := math.modf(3.25)\nd := math.frexp(0.5)\nres := [a, b, c, d]"
			if c.Mine() {
				c.Begin(src)
				out := evalECAL(src, evalOpts{budget: 5000})
				v, _, _ := out.vs.GetValue("res")
				c.Nontrivial()
				if got := render(v); out.err != nil || got != "[[0.5,4],3,[3,0.25],[0.5,0]]" {
					c.Viol("a returned result list is changed by a later bridged call", fmt.Sprintf("%s gives %s / %v, expected [[0.5,4],3,[3,0.25],[0.5,0]]", src, got, out.err), src)
				} else {
					c.Outcome("result-kept")
				}
			}
			c.Sample("a := math.frexp(8); b := math.sqrt(9); a is still [0.5, 4]")
		}})
}
