package main

import (
	"fmt"
	"strings"

	"github.com/krotik/ecal/interpreter"
	"github.com/krotik/ecal/parser"
	"github.com/krotik/ecal/scope"
	"github.com/krotik/ecal/util"
)

// ---------------------------------------------------------------------------
// C03 — expressions evaluate per the documented operator semantics and precedence

func lit(src string, v interface{}) *xnode { return &xnode{kind: xLit, src: src, val: v} }
func vr(src string, v interface{}) *xnode  { return &xnode{kind: xLit, src: src, val: v, isVar: true} }

func c03Operands(reduced bool) []*xnode {
	l := []interface{}{float64(1), "a"}
	all := []*xnode{lit("1", float64(1)), lit("2", float64(2)), lit("0", float64(0)), lit("2.5", 2.5), lit(`"a"`, "a"), lit(`"ab"`, "ab"), lit(`"1"`, "1"),
		lit("true", true), lit("false", false), lit("null", nil), vr("n", float64(3)), vr("s", "a"), vr("l", l),
		// quoted string literals are not constants: {{...}} is interpolated
		{kind: xLit, src: `"^{{s}}"`, val: "^a"}, {kind: xLit, src: `"{{s}}b"`, val: "ab"},
		// composite operands: call result, list element, map field, negative index
		{kind: xLit, src: "two()", val: float64(2)}, {kind: xLit, src: "l[0]", val: float64(1)}, {kind: xLit, src: "m.k", val: "a"}, {kind: xLit, src: "l[-1]", val: "a"},
		// list literals (a list built by a literal may be represented differently from one built by add/concat), the empty list
		{kind: xLit, src: "[]", val: []interface{}{}}, {kind: xLit, src: `[1, "a"]`, val: l}, vr("e", []interface{}{}), {kind: xLit, src: "[null]", val: []interface{}{nil}}}
	if reduced {
		return []*xnode{all[0], all[1], all[2], all[4], all[7], all[9], all[12]}
	}
	return all
}

var c03Bin = []string{"*", "/", "//", "%", "+", "-", "==", "!=", "<", ">", "<=", ">=", "like", "hasprefix", "hassuffix", "in", "notin", "and", "or"}

func c03Setup(vs parser.Scope, erp *interpreter.ECALRuntimeProvider) {
	vs.SetValue("n", float64(3))
	vs.SetValue("s", "a")
	vs.SetValue("l", []interface{}{float64(1), "a"})
	vs.SetValue("m", map[interface{}]interface{}{"k": "a"})
	vs.SetValue("e", []interface{}{})
	vs.SetValue("two", &hfunc{func(args []interface{}) (interface{}, error) { return float64(2), nil }})
}

func c03Compare(c *Ctx, src string, want rres) {
	c.Begin(src)
	out := evalECAL("res := "+src, evalOpts{setup: c03Setup, budget: 500})
	if want.k == rUnspec {
		c.Skip()
		return
	}
	c.Nontrivial()
	if out.panicKey != "" {
		c.Viol("panic-where-a-result-is-defined: "+out.panicKey, fmt.Sprintf("%q panics (%s), expected %s", src, out.panicMsg, descr(want)), src)
		return
	}
	if out.stage != "eval" {
		c.Viol("does-not-parse", fmt.Sprintf("%q: %s error %v", src, out.stage, out.err), src)
		return
	}
	if want.k == rVal {
		if out.err != nil {
			c.Viol("error-instead-of-value", fmt.Sprintf("%q: error %v, expected %s", src, out.err, descr(want)), src)
			return
		}
		got, _, _ := out.vs.GetValue("res")
		if !sameValue(got, want.v) {
			c.Viol("wrong-value", fmt.Sprintf("%q evaluates to %s, expected %s", src, render(got), render(want.v)), src)
			return
		}
		c.Outcome("value")
		return
	}
	// an error is expected
	if out.err == nil {
		got, _, _ := out.vs.GetValue("res")
		k := "value-instead-of-error"
		if strings.Contains(src, "like") {
			k = "value-instead-of-error (like swallows the error of its operand)"
		}
		c.Viol(k, fmt.Sprintf("%q evaluates to %s, expected a runtime error (%s)", src, render(got), descr(want)), src)
		return
	}
	re, ok := out.err.(*util.RuntimeError)
	if !ok || fmt.Sprint(re.Type) != want.etype {
		c.Viol("wrong-error-type", fmt.Sprintf("%q: error %v, expected %s", src, out.err, descr(want)), src)
		return
	}
	if want.operand != "" && !strings.Contains(re.Detail, strings.Trim(want.operand, `"`)) {
		c.Viol("error-does-not-name-the-operand", fmt.Sprintf("%q: error detail %q does not name the operand %s", src, re.Detail, want.operand), src)
		return
	}
	c.Outcome("error")
}

func descr(r rres) string {
	switch r.k {
	case rVal:
		return "value " + render(r.v)
	case rErr:
		return fmt.Sprintf("error %q naming %s", r.etype, r.operand)
	}
	return "unspecified (" + r.why + ")"
}

func c03Check(c *Ctx, tree *xnode, flat []ftok) {
	want := refEval(tree)
	// three layouts
	if flat != nil {
		c03Compare(c, flatSource(flat, " "), want)
		c03Compare(c, flatSource(flat, "\n  "), want)
	}
	c03Compare(c, fullSource(tree, " ", true), want)
	if flat == nil {
		c03Compare(c, fullSource(tree, "\n ", true), want)
	}
}

func init() {
	register(&Part{Prop: "C03", Name: "operator-pairs", Quick: 16, Thor: 32,
		Desc: "all x op y over 19 operands (incl. two interpolating string literals, a call result, list elements, a map field) x 19 operators; all x op1 y op2 z unparenthesised (tree from the stated precedence table) and in both parenthesisations over 7 operands incl. every kind (number, zero, string, boolean, null, list); prefix -, +, not on operands and in front of pairs; each in 2-3 layouts (spaces, newline after each operator, redundant parentheses around every sub-term); thorough adds all operator triples over 4 operands",
		Rule: "odometer over operands x operators x forms x layouts; non-trivial = the reference defines the result (value or error); Unspecified cases are counted as skipped",
		Run: func(c *Ctx) {
			ops := c03Operands(false)
			red := c03Operands(true)
			for _, x := range ops {
				for _, o := range c03Bin {
					for _, y := range ops {
						if c.Stopped() {
							return
						}
						if !c.Mine() {
							continue
						}
						fl := []ftok{{operand: x}, {op: o}, {operand: y}}
						c03Check(c, flatParse(fl), fl)
						for _, p := range []string{"-", "+", "not"} {
							f2 := []ftok{{op: p, prefix: true}, {operand: x}, {op: o}, {operand: y}}
							c03Check(c, flatParse(f2), f2)
							f3 := []ftok{{operand: x}, {op: o}, {op: p, prefix: true}, {operand: y}}
							c03Check(c, flatParse(f3), f3)
							// prefix over the parenthesised pair
							c03Check(c, &xnode{kind: xPre, op: p, l: &xnode{kind: xBin, op: o, l: x, r: y}}, nil)
						}
					}
				}
			}
			for _, o1 := range c03Bin {
				for _, o2 := range c03Bin {
					for _, x := range red {
						for _, y := range red {
							for _, z := range red {
								if c.Stopped() {
									return
								}
								if !c.Mine() {
									continue
								}
								fl := []ftok{{operand: x}, {op: o1}, {operand: y}, {op: o2}, {operand: z}}
								c03Check(c, flatParse(fl), fl)
								c03Check(c, &xnode{kind: xBin, op: o2, l: &xnode{kind: xBin, op: o1, l: x, r: y}, r: z}, nil)
								c03Check(c, &xnode{kind: xBin, op: o1, l: x, r: &xnode{kind: xBin, op: o2, l: y, r: z}}, nil)
							}
						}
					}
				}
			}
			if c.Thorough() {
				small := []*xnode{red[0], red[1], red[3], red[4]}
				for _, o1 := range c03Bin {
					for _, o2 := range c03Bin {
						for _, o3 := range c03Bin {
							for _, w := range small {
								for _, x := range small {
									for _, y := range small {
										for _, z := range small {
											if c.Stopped() {
												return
											}
											if !c.Mine() {
												continue
											}
											fl := []ftok{{operand: w}, {op: o1}, {operand: x}, {op: o2}, {operand: y}, {op: o3}, {operand: z}}
											want := refEval(flatParse(fl))
											c03Compare(c, flatSource(fl, " "), want)
										}
									}
								}
							}
						}
					}
				}
			}
			c.Sample("1 + 2 * n")
			c.Sample(`not "a" == s and true`)
		},
		Replay: func(c *Ctx, in string) {
			out := evalECAL("res := "+in, evalOpts{setup: c03Setup, budget: 500})
			v, _, _ := out.vs.GetValue("res")
			fmt.Printf("%q -> value %s error %v panic %s\n", in, render(v), out.err, out.panicKey)
		}})
}

// ---------------------------------------------------------------------------
// re-evaluation: an expression is a function of its operands - the same parsed
// expression evaluated again (a loop body, a function body, a sink, a host that
// keeps the tree) gives what a freshly parsed one gives for the same operand
// values, whatever it was evaluated with before (also after an evaluation that
// failed). Differential oracle, no reference semantics involved.

func init() {
	register(&Part{Prop: "C03", Name: "re-evaluation", Quick: 1, Thor: 1,
		Desc: "x op y (19 binary operators) and op x (3 prefix operators) parsed ONCE and evaluated for every sequence of 3 operand pairs over {7, 2, 0, 2.5, \"a\", true, null, [1], \"(\"} x {2, 0, 4, \"a\", \"(\", [1, 2]} (incl. zero divisors, wrong kinds, malformed patterns): each evaluation must give the result or error type of a freshly parsed expression with the same operand values",
		Rule: "operators x sequences of operand pairs; every case non-trivial",
		Run: func(c *Ctx) {
			type val struct {
				name string
				v    interface{}
			}
			xs := []val{{"7", float64(7)}, {"2", float64(2)}, {"0", float64(0)}, {"2.5", 2.5}, {`"a"`, "a"}, {"true", true}, {"null", nil}, {"[1]", []interface{}{float64(1)}}, {`"("`, "("}}
			ys := []val{{"2", float64(2)}, {"0", float64(0)}, {"4", float64(4)}, {`"a"`, "a"}, {`"("`, "("}, {"[1,2]", []interface{}{float64(1), float64(2)}}}
			evalWith := func(ast *parser.ASTNode, erp *interpreter.ECALRuntimeProvider, x, y interface{}) string {
				vs := scope.NewScope(scope.GlobalScope)
				vs.SetValue("x", x)
				vs.SetValue("y", y)
				var res interface{}
				var err error
				if pk, _ := Guard(func() { res, err = ast.Runtime.Eval(vs, make(map[string]interface{}), erp.NewThreadID()) }); pk != "" {
					return "panic:" + pk
				}
				if err != nil {
					return "error:" + errType(err)
				}
				return "value:" + render(res)
			}
			mk := func(src string) (*parser.ASTNode, *interpreter.ECALRuntimeProvider) {
				erp := interpreter.NewECALRuntimeProvider("v", nil, nil)
				erp.Cron.Stop()
				ast, err := parser.ParseWithRuntime("v", src, erp)
				if err != nil || ast.Runtime.Validate() != nil {
					return nil, nil
				}
				return ast, erp
			}
			var srcs []string
			for _, op := range c03Bin {
				srcs = append(srcs, "x "+op+" y")
			}
			srcs = append(srcs, "-x", "+x", "not x", "x % y + x // y", "(x like y) or (x in y)")
			for _, src := range srcs {
				for i1 := range xs {
					for j1 := range ys {
						for i2 := range xs {
							if !c.Mine() {
								continue
							}
							// three evaluations of one tree: (x1,y1), (x2,y1), (x1,y2') ...
							seq := [][2]val{{xs[i1], ys[j1]}, {xs[i2], ys[(j1+1)%len(ys)]}, {xs[i1], ys[(j1+2)%len(ys)]}, {xs[i2], ys[j1]}}
							input := fmt.Sprintf("%s evaluated for %v", src, seq)
							c.Begin(input)
							shared, serp := mk(src)
							if shared == nil {
								c.Skip()
								continue
							}
							c.Nontrivial()
							bad := false
							for k, p := range seq {
								got := evalWith(shared, serp, p[0].v, p[1].v)
								fresh, ferp := mk(src)
								want := evalWith(fresh, ferp, p[0].v, p[1].v)
								if got != want {
									c.Viol("re-evaluation differs from a fresh evaluation", fmt.Sprintf("%q parsed once: evaluation %d with x=%s y=%s gives %s, a freshly parsed expression gives %s (earlier evaluations of the same tree: %v)", src, k+1, p[0].name, p[1].name, got, want, seq[:k]), input)
									bad = true
									break
								}
							}
							if !bad {
								c.Outcome("same-as-fresh")
							}
						}
					}
				}
			}
			c.Sample(`"x % y" parsed once: (7,2) -> 1, (7,0) -> error, (7,2) -> 1 again`)
		}})
}
