package main

import (
	"fmt"
	"io/ioutil"
	"os"
	"path/filepath"
	"strings"

	"github.com/krotik/ecal/interpreter"
	"github.com/krotik/ecal/parser"
	"github.com/krotik/ecal/scope"
	"github.com/krotik/ecal/util"
)

// ---------------------------------------------------------------------------
// C17 — file imports cannot escape the configured root directory

// lexNorm is the reference: a stack-based lexical normaliser of an absolute
// path (independent of path/filepath).
func lexNorm(abs string) string {
	var st []string
	for _, seg := range strings.Split(abs, "/") {
		switch seg {
		case "", ".":
		case "..":
			if len(st) > 0 {
				st = st[:len(st)-1]
			}
		default:
			st = append(st, seg)
		}
	}
	return "/" + strings.Join(st, "/")
}

func absOf(cwd, p string) string {
	if strings.HasPrefix(p, "/") {
		return lexNorm(p)
	}
	return lexNorm(cwd + "/" + p)
}

func inside(root, p string) bool {
	return p == root || strings.HasPrefix(p, strings.TrimSuffix(root, "/")+"/")
}

type c17Tree struct {
	T     string
	files map[string]string // absolute path -> content
}

func c17MakeTree() (*c17Tree, error) {
	T, err := ioutil.TempDir("", "verif-c17-")
	if err != nil {
		return nil, err
	}
	T, _ = filepath.EvalSymlinks(T)
	t := &c17Tree{T: T, files: map[string]string{}}
	names := []string{"a", "a.b", "..a", "a b"}
	// second family (under T/p): the root directory is called "a" and has
	// siblings whose names begin with the root's name ("a.b", "a b") - every
	// one of them can be named by the path alphabet (string-prefix confusion)
	dirs := []string{"", "sub", "root", "root/sub", "root/sub/sub", "root2", "root/a.d", "rootx",
		"p/a", "p/a/sub", "p/a.b", "p/a b", "p/..a", "p/sub", "p/a/a.b.d"}
	for _, d := range dirs {
		if err := os.MkdirAll(filepath.Join(T, d), 0755); err != nil {
			return nil, err
		}
		for _, n := range names {
			if d == "" || d == "p" {
				// files would collide with the directories of the second family
				if n == "a" && d == "p" {
					continue
				}
			}
			p := filepath.Join(T, d, n)
			if fi, err := os.Stat(p); err == nil && fi.IsDir() {
				continue
			}
			content := "CONTENT-OF:" + strings.TrimPrefix(p, T)
			if err := ioutil.WriteFile(p, []byte(content), 0644); err != nil {
				return nil, err
			}
			t.files[p] = content
		}
	}
	return t, nil
}

var c17Segs = []string{"a", "sub", "..", ".", "", "a.b", "..a", "a b"}

// c17ForeignSegs: segments with the other platform's separator and with
// characters a "helpful" normalisation might rewrite. On this platform they
// are ordinary file names; whatever the locator does with them, it must not
// open anything outside the root.
var c17ForeignSegs = []string{"a", "sub", "..", "..\\a", "sub\\..", "..\\..\\a", "%2e%2e", "..;", "a\x00", "~"}

func c17Paths(maxSeg int, f func(p string) bool) { c17PathsOver(c17Segs, maxSeg, f) }

func c17PathsOver(alphabet []string, maxSeg int, f func(p string) bool) {
	var rec func(segs []string) bool
	rec = func(segs []string) bool {
		if len(segs) > 0 {
			body := strings.Join(segs, "/")
			for _, lead := range []string{"", "/"} {
				for _, trail := range []string{"", "/"} {
					if !f(lead + body + trail) {
						return false
					}
				}
			}
		}
		if len(segs) == maxSeg {
			return true
		}
		for _, s := range alphabet {
			if !rec(append(segs, s)) {
				return false
			}
		}
		return true
	}
	rec(nil)
}

func init() {
	register(&Part{Prop: "C17", Name: "resolve", Quick: 16, Thor: 16,
		Desc: "FileImportLocator.Resolve for every path of <= 5 (thorough 6) segments over {a, sub, .., ., '', a.b, ..a, 'a b'} with optional leading/trailing slash, for 7 root spellings (absolute, trailing slash, relative, ./, ., nested with .., empty), plus every path of <= 3 segments over 10 segments with foreign separators and encodings (..\\a, sub\\.., %2e%2e, ..;, NUL, ~); oracle: own lexical normaliser + recorded file-system calls",
		Rule: "paths enumerated exhaustively by an odometer over the segment alphabet; non-trivial = the path lexically leaves the root at some prefix or names an existing file",
		Run:  c17Run,
		Replay: func(c *Ctx, in string) {
			c.NShards = 1
			c17RunOne(c, in)
		}})
	register(&Part{Prop: "C17", Name: "import-statement", Quick: 4, Thor: 8,
		Desc: "the same verdict through the interpreter: import \"<path>\" as m for every path of <= 3 (thorough 4) segments",
		Rule: "as part resolve, through parser + interpreter import statement",
		Run:  c17RunImport})
}

type c17Root struct{ root, cwd string }

func c17Roots(t *c17Tree) []c17Root {
	T := t.T
	return []c17Root{
		{T + "/root", T}, {T + "/root/", T}, {"root", T}, {"./root", T}, {".", T + "/root"}, {"root/sub/..", T}, {"", T + "/root"},
		{T + "/p/a", T}, {"a", T + "/p"}, {"./a/", T + "/p"},
	}
}

var c17tree *c17Tree

func c17Setup(c *Ctx) bool {
	if c17tree == nil {
		t, err := c17MakeTree()
		if err != nil {
			c.res.HarnessErr = "cannot build file tree: " + err.Error()
			return false
		}
		c17tree = t
	}
	return true
}

func c17Check(c *Ctx, r c17Root, p string) {
	t := c17tree
	input := fmt.Sprintf("root=%q cwd=%q path=%q", r.root, strings.TrimPrefix(r.cwd, t.T), p)
	c.Begin(input)
	rootAbs := absOf(r.cwd, r.root)
	target := lexNorm(rootAbs + "/" + p)
	in := inside(rootAbs, target)
	util.VerifOpened = util.VerifOpened[:0]
	il := &util.FileImportLocator{Root: r.root}
	var res string
	var err error
	if pk, pm := Guard(func() { res, err = il.Resolve(p) }); pk != "" {
		c.Viol(pk, pm, input)
		return
	}
	for _, o := range util.VerifOpened {
		if !inside(rootAbs, absOf(r.cwd, o)) {
			c.Viol("opened-outside-root", fmt.Sprintf("%s: path %q (= %s) was passed to a file-system call, root is %s", input, o, absOf(r.cwd, o), rootAbs), input)
		}
	}
	_, exists := t.files[target]
	if err == nil {
		// whatever was returned must be the content of a file inside the root
		from := ""
		for fp, fc := range t.files {
			if fc == res {
				from = fp
			}
		}
		if from == "" || !inside(rootAbs, from) {
			c.Viol("content-not-from-inside-root", fmt.Sprintf("%s: returned %q which is not the content of a file inside the root %s", input, res, rootAbs), input)
		}
	}
	if !in {
		c.Nontrivial()
		if err == nil {
			c.Viol("outside-path-resolved", fmt.Sprintf("%s: lexically outside the root (%s) but resolved to %q", input, target, res), input)
		}
		c.Outcome("outside:error")
		return
	}
	if exists {
		c.Nontrivial()
	}
	switch {
	case err != nil:
		c.Outcome("inside:error") // always permitted by the property
	case exists:
		c.Outcome("inside:content")
	default:
		c.Outcome("inside:content-of-other-file")
	}
}

func c17Run(c *Ctx) {
	if !c17Setup(c) {
		return
	}
	defer os.RemoveAll(c17tree.T)
	maxSeg := 5
	if c.Thorough() {
		maxSeg = 6
	}
	roots := c17Roots(c17tree)
	lastCwd := ""
	for _, r := range roots {
		c17Paths(maxSeg, func(p string) bool {
			if !c.Mine() {
				return !c.Stopped()
			}
			if r.cwd != lastCwd {
				os.Chdir(r.cwd)
				lastCwd = r.cwd
			}
			c17Check(c, r, p)
			return true
		})
		c17PathsOver(c17ForeignSegs, 3, func(p string) bool {
			if !c.Mine() {
				return !c.Stopped()
			}
			if r.cwd != lastCwd {
				os.Chdir(r.cwd)
				lastCwd = r.cwd
			}
			c17Check(c, r, p)
			return true
		})
	}
	c.Sample(map[string]string{"root": "root (relative, cwd=T)", "path": "sub/../../a", "expected": "error (lexically outside)"})
	c.Sample(map[string]string{"root": "T/root/", "path": "/sub/./a/", "expected": "content of T/root/sub/a"})
	os.Chdir("/")
}

func c17RunOne(c *Ctx, in string) {
	if !c17Setup(c) {
		return
	}
	defer os.RemoveAll(c17tree.T)
	var root, cwd, p string
	fmt.Sscanf(in, "root=%q cwd=%q path=%q", &root, &cwd, &p)
	root = strings.Replace(root, "/tmp/", c17tree.T+"/../", 1) // replays use the recorded relative layout
	os.Chdir(c17tree.T + cwd)
	// the recorded absolute root belonged to another temp dir: map it by suffix
	if strings.HasPrefix(root, "/") {
		if i := strings.Index(root, "/root"); i >= 0 {
			root = c17tree.T + root[i:]
		}
	}
	c17Check(c, c17Root{root, c17tree.T + cwd}, p)
	os.Chdir("/")
}

func c17RunImport(c *Ctx) {
	if !c17Setup(c) {
		return
	}
	defer os.RemoveAll(c17tree.T)
	// importable ECAL files inside and outside the root
	t := c17tree
	for p := range t.files {
		ioutil.WriteFile(p, []byte(fmt.Sprintf("v := %q", "CONTENT-OF:"+strings.TrimPrefix(p, t.T))), 0644)
	}
	maxSeg := 3
	if c.Thorough() {
		maxSeg = 4
	}
	for _, r := range []c17Root{{t.T + "/root", t.T}, {"root", t.T}, {".", t.T + "/root"}} {
		os.Chdir(r.cwd)
		rootAbs := absOf(r.cwd, r.root)
		c17Paths(maxSeg, func(p string) bool {
			if !c.Mine() {
				return !c.Stopped()
			}
			if strings.ContainsAny(p, "\"\\") {
				return true
			}
			input := fmt.Sprintf("root=%q path=%q", r.root, p)
			c.Begin(input)
			target := lexNorm(rootAbs + "/" + p)
			_, exists := t.files[target]
			in := inside(rootAbs, target)
			erp := interpreter.NewECALRuntimeProvider("c17", &util.FileImportLocator{Root: r.root}, nil)
			erp.Cron.Stop()
			var val interface{}
			var err error
			pk, pm := Guard(func() {
				var ast *parser.ASTNode
				ast, err = parser.ParseWithRuntime("c17", fmt.Sprintf("import %q as m\nres := m.v", p), erp)
				if err == nil {
					if err = ast.Runtime.Validate(); err == nil {
						vs := scope.NewScope(scope.GlobalScope)
						_, err = ast.Runtime.Eval(vs, make(map[string]interface{}), erp.NewThreadID())
						val, _, _ = vs.GetValue("res")
					}
				}
			})
			if pk != "" {
				c.Viol(pk, pm, input)
				return true
			}
			want := "CONTENT-OF:" + strings.TrimPrefix(target, t.T)
			switch {
			case !in:
				c.Nontrivial()
				if err == nil {
					c.Viol("import-outside-root", fmt.Sprintf("%s: import of a path outside the root succeeded (value %v)", input, val), input)
				}
				c.Outcome("outside:error")
			case err != nil:
				c.Outcome("inside:error")
			default:
				c.Nontrivial()
				// the imported module must come from a file inside the root
				from := t.T + strings.TrimPrefix(fmt.Sprint(val), "CONTENT-OF:")
				if _, known := t.files[from]; !known || !inside(rootAbs, from) {
					c.Viol("import-not-from-inside-root", fmt.Sprintf("%s: imported module value %v does not come from a file inside the root", input, val), input)
				}
				_ = want
				_ = exists
				c.Outcome("inside:imported")
			}
			return true
		})
	}
	c.Sample(map[string]string{"program": "import \"../a\" as m", "root": "root", "expected": "error"})
	os.Chdir("/")
}
