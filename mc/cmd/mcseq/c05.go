package main

import (
	"fmt"
	"sort"
	"strings"

	"github.com/krotik/ecal/interpreter"
	"github.com/krotik/ecal/parser"
)

// ---------------------------------------------------------------------------
// C05 — lexical scoping, functions, containers and objects behave as specified

// c05Eval runs a program with a recording probe function and returns the
// probe records "label=value".
func c05Eval(src string) (probes []string, out evalOut) {
	out = evalECAL(src, evalOpts{budget: 20000, setup: func(vs parser.Scope, erp *interpreter.ECALRuntimeProvider) {
		vs.SetValue("probe", &hfunc{func(args []interface{}) (interface{}, error) {
			if len(args) == 2 {
				probes = append(probes, fmt.Sprintf("%v=%s", args[0], render(args[1])))
			} else {
				probes = append(probes, "bad-probe-call")
			}
			return nil, nil
		}})
	}})
	return
}

func c05Compare(c *Ctx, class, src string, want []string) {
	c.Begin(src)
	got, out := c05Eval(src)
	c.Nontrivial()
	if out.panicKey != "" {
		c.Viol(class+": "+out.panicKey, fmt.Sprintf("program panics (%s):\n%s", out.panicMsg, src), src)
		return
	}
	if out.stage != "eval" || out.budget {
		c.Viol(class+": program rejected", fmt.Sprintf("%s error %v (budget %v):\n%s", out.stage, out.err, out.budget, src), src)
		return
	}
	if out.err != nil {
		c.Viol(class+": unexpected error", fmt.Sprintf("error %v:\n%s", out.err, src), src)
		return
	}
	for i := range want {
		if i >= len(got) || (want[i] != got[i] && !strings.HasSuffix(want[i], "=?")) {
			g := "<missing>"
			if i < len(got) {
				g = got[i]
			}
			lbl := want[i][:strings.Index(want[i], "=")]
			c.Viol(class+": "+c05Label(lbl), fmt.Sprintf("probe %s, expected %s (all probes: got %v, expected %v):\n%s", g, want[i], got, want, src), src)
			return
		}
	}
	c.Outcome("agrees")
}

// c05Label strips instance details from a probe label for the violation key.
func c05Label(l string) string {
	if i := strings.Index(l, "#"); i >= 0 {
		return l[:i]
	}
	return l
}

// (1) scoping: an environment-chain model -----------------------------------

type frame struct {
	vars   map[string]float64
	parent *frame
}

func (f *frame) lookup(n string) (*frame, bool) {
	for x := f; x != nil; x = x.parent {
		if _, ok := x.vars[n]; ok {
			return x, true
		}
	}
	return nil, false
}

func c05Scoping(c *Ctx) {
	blockKinds := []string{"if", "for", "func", "mutex", "try"}
	stmts := []string{"none", "assign", "let"}
	for _, global := range []bool{false, true} {
		for _, ok := range blockKinds {
			for _, os := range stmts {
				for _, ik := range blockKinds {
					for _, is := range stmts {
						for _, late := range []bool{false, true} {
							if !c.Mine() {
								continue
							}
							// model
							g := &frame{vars: map[string]float64{}}
							var want []string
							pr := func(l string, f *frame) {
								if fr, ok := f.lookup("a"); ok {
									want = append(want, fmt.Sprintf("%s=%v", l, fr.vars["a"]))
								} else {
									want = append(want, l+"=null")
								}
							}
							set := func(f *frame, how string, v float64) {
								switch how {
								case "let":
									f.vars["a"] = v
								case "assign":
									if fr, ok := f.lookup("a"); ok {
										fr.vars["a"] = v
									} else {
										f.vars["a"] = v
									}
								}
							}
							var b strings.Builder
							if global {
								b.WriteString("a := 1\n")
								g.vars["a"] = 1
							}
							// function bodies are parented to the declaration scope (global here)
							open := func(kind, name string, ind string) {
								switch kind {
								case "if":
									fmt.Fprintf(&b, "%sif true {\n", ind)
								case "for":
									fmt.Fprintf(&b, "%sfor i%s in [1] {\n", ind, name)
								case "func":
									fmt.Fprintf(&b, "%sfunc %s() {\n", ind, name)
								case "mutex":
									fmt.Fprintf(&b, "%smutex m%s {\n", ind, name)
								case "try":
									fmt.Fprintf(&b, "%stry {\n", ind)
								}
							}
							closeB := func(kind, name, ind string) {
								switch kind {
								case "func":
									fmt.Fprintf(&b, "%s}\n%s%s()\n", ind, ind, name)
								case "try":
									fmt.Fprintf(&b, "%s} finally {\n%s}\n", ind, ind)
								default:
									fmt.Fprintf(&b, "%s}\n", ind)
								}
							}
							outer := &frame{vars: map[string]float64{}, parent: g}
							open(ok, "fo", "")
							emit := func(how string, v float64, ind string, f *frame) {
								switch how {
								case "assign":
									fmt.Fprintf(&b, "%sa := %v\n", ind, v)
								case "let":
									fmt.Fprintf(&b, "%slet a := %v\n", ind, v)
								}
								set(f, how, v)
							}
							emit(os, 2, "  ", outer)
							inner := &frame{vars: map[string]float64{}, parent: outer}
							open(ik, "fi", "  ")
							emit(is, 3, "    ", inner)
							b.WriteString("    probe(\"inner\", a)\n")
							pr("inner", inner)
							closeB(ik, "fi", "  ")
							b.WriteString("  probe(\"outer\", a)\n")
							pr("outer", outer)
							if late {
								// a definition made after the inner block has run
								b.WriteString("  let a := 4\n  probe(\"outer2\", a)\n")
								set(outer, "let", 4)
								pr("outer2", outer)
							}
							closeB(ok, "fo", "")
							b.WriteString("probe(\"global\", a)\n")
							pr("global", g)
							c05Compare(c, "scoping", b.String(), want)
						}
					}
				}
			}
		}
	}
}

// (2) functions ----------------------------------------------------------------

func c05Functions(c *Ctx) {
	type prog struct {
		src  string
		want []string
	}
	var ps []prog
	// parameters, defaults, argument counts
	for _, def := range []string{"", "=5", "=\"d\"", "=null", "=[1]"} {
		dv := map[string]string{"": "null", "=5": "5", "=\"d\"": `"d"`, "=null": "null", "=[1]": "[1]"}[def]
		for n := 0; n <= 3; n++ {
			var args []string
			for i := 0; i < n; i++ {
				args = append(args, fmt.Sprint(i+1))
			}
			wp, wq := "null", dv
			if n >= 1 {
				wp = "1"
			}
			if n >= 2 {
				wq = "2"
			}
			lbl := fmt.Sprintf("params#%d%s", n, strings.NewReplacer("\"", "", "=", "-").Replace(def))
			ps = append(ps, prog{fmt.Sprintf("func f(p, q%s) {\n  return [p, q]\n}\nr := f(%s)\nprobe(\"%s\", r)\n", def, strings.Join(args, ", "), lbl),
				[]string{fmt.Sprintf("%s=[%s,%s]", lbl, wp, wq)}})
		}
	}
	ps = append(ps,
		prog{"func mk(n) {\n  func inner() {\n    n := n + 1\n    return n\n  }\n  return inner\n}\nc1 := mk(1)\nc2 := mk(10)\nprobe(\"closure#1\", c1())\nprobe(\"closure#2\", c1())\nprobe(\"closure#3\", c2())\nprobe(\"closure#4\", c1())\n",
			[]string{"closure#1=2", "closure#2=3", "closure#3=11", "closure#4=4"}},
		prog{"func mk(n) {\n  return func () {\n    return n * 2\n  }\n}\nl := [mk(1), mk(2)]\nprobe(\"closure-in-list#1\", l[0]())\nprobe(\"closure-in-list#2\", l[1]())\n", []string{"closure-in-list#1=2", "closure-in-list#2=4"}},
		prog{"func fact(n) {\n  if n <= 1 {\n    return 1\n  }\n  return n * fact(n - 1)\n}\nprobe(\"recursion#1\", fact(3))\nprobe(\"recursion#2\", fact(1))\n", []string{"recursion#1=6", "recursion#2=1"}},
		prog{"func fib(n) {\n  if n < 2 {\n    return n\n  }\n  let a := fib(n - 1)\n  let b := fib(n - 2)\n  return a + b\n}\nprobe(\"recursion-locals\", fib(5))\n", []string{"recursion-locals=5"}},
		prog{"a := 1\nfunc f() {\n  return a\n}\nfunc g() {\n  let a := 2\n  return f()\n}\nprobe(\"lexical-not-dynamic\", g())\n", []string{"lexical-not-dynamic=1"}},
		prog{"func f() {\n  let c := 0\n  c := c + 1\n  return c\n}\nprobe(\"fresh-locals#1\", f())\nprobe(\"fresh-locals#2\", f())\n", []string{"fresh-locals#1=1", "fresh-locals#2=1"}},
		prog{"func f() {\n  c := 1\n  return c\n}\nf()\nprobe(\"call-local-not-visible-outside\", c)\n", []string{"call-local-not-visible-outside=null"}},
		prog{"func f(p) {\n  p := 9\n  return p\n}\nx := 1\nf(x)\nprobe(\"param-does-not-leak\", p)\nprobe(\"scalar-by-value\", x)\n", []string{"param-does-not-leak=null", "scalar-by-value=1"}},
		prog{"x := 1\nfunc f() {\n  x := x + 1\n}\nf()\nf()\nprobe(\"assignment-updates-enclosing\", x)\n", []string{"assignment-updates-enclosing=3"}},
		prog{"x := 1\nfunc f() {\n  let x := 5\n  x := x + 1\n  return x\n}\nprobe(\"let-shadows#1\", f())\nprobe(\"let-shadows#2\", x)\n", []string{"let-shadows#1=6", "let-shadows#2=1"}},
		prog{"func outer() {\n  let v := 1\n  func inner() {\n    return v\n  }\n  v := 2\n  return inner()\n}\nprobe(\"closure-sees-later-update\", outer())\n", []string{"closure-sees-later-update=2"}},
		prog{"func apply(f, x) {\n  return f(x)\n}\nfunc inc(x) {\n  return x + 1\n}\nprobe(\"first-class#1\", apply(inc, 1))\nm := {\"f\": inc}\nprobe(\"first-class#2\", m.f(2))\n", []string{"first-class#1=2", "first-class#2=3"}},
		prog{"func f(a, b) {\n  return [a, b]\n}\nprobe(\"positional\", f(1, 2))\n", []string{"positional=[1,2]"}},
		prog{"func f() {\n}\nprobe(\"no-return-value\", f())\nfunc g() {\n  return\n}\nprobe(\"empty-return\", g())\n", []string{"no-return-value=null", "empty-return=null"}},
	)
	// parameters are fresh locals even when the definition scope or the global
	// scope holds a variable of the same name: passed, defaulted and missing
	// parameters, read and written by the body (C05-g)
	for _, call := range []struct{ args, q string }{{"1", "6"}, {"1, 2", "3"}} {
		lbl := fmt.Sprintf("param-shadows-global#%d", strings.Count(call.args, ",")+1)
		ps = append(ps, prog{fmt.Sprintf("q := 7\nfunc f(p, q=5) {\n  q := q + 1\n  return [p, q]\n}\nr := f(%s)\nprobe(\"%s\", [r, q])\n", call.args, lbl),
			[]string{fmt.Sprintf("%s=[[1,%s],7]", lbl, call.q)}})
		lbl = fmt.Sprintf("param-shadows-enclosing#%d", strings.Count(call.args, ",")+1)
		ps = append(ps, prog{fmt.Sprintf("func outer() {\n  let q := 7\n  func inner(p, q=5) {\n    q := q + 1\n    return [p, q]\n  }\n  let r := inner(%s)\n  return [r, q]\n}\nprobe(\"%s\", outer())\n", call.args, lbl),
			[]string{fmt.Sprintf("%s=[[1,%s],7]", lbl, call.q)}})
	}
	ps = append(ps,
		prog{"n := 3\nfunc f(n=1) {\n  return n\n}\na := f()\nb := f()\nprobe(\"default-param-read-only\", [a, b, n])\n", []string{"default-param-read-only=[1,1,3]"}},
		prog{"p := 7\nfunc f(p) {\n  p := 9\n  return p\n}\nr := f()\nprobe(\"missing-param-shadows-global\", [r, p])\n", []string{"missing-param-shadows-global=[9,7]"}},
	)
	for _, p := range ps {
		if c.Mine() {
			c05Compare(c, "functions", p.src, p.want)
		}
	}
}

// (3) containers: operation sequences against a list/map model -------------------

type cval struct {
	kind   string // null, num, list, map
	num    float64
	list   *[]interface{}
	m      map[string]interface{} // keys: "n:<number>" or "s:<string>"
	poison *bool                  // set after add/del on an aliased list
}

func nk(f float64) string { return fmt.Sprintf("n:%v", f) }
func sk(s string) string  { return "s:" + s }

func modelRender(v interface{}) string {
	switch x := v.(type) {
	case *cval:
		switch x.kind {
		case "null":
			return "null"
		case "num":
			return render(x.num)
		case "list":
			var p []string
			for _, e := range *x.list {
				p = append(p, modelRender(e))
			}
			return "[" + strings.Join(p, ",") + "]"
		case "map":
			var p []string
			for k, e := range x.m {
				if strings.HasPrefix(k, "n:") {
					p = append(p, k[2:]+":"+modelRender(e))
				} else {
					p = append(p, fmt.Sprintf("%q:%s", k[2:], modelRender(e)))
				}
			}
			sort.Strings(p)
			return "{" + strings.Join(p, ",") + "}"
		}
	}
	return render(v)
}

type cop struct {
	src string
	do  func(a, b **cval) bool // returns false when the statement raises an error (no effect)
}

func newList() *cval {
	l := []interface{}{float64(1), float64(2)}
	p := false
	return &cval{kind: "list", list: &l, poison: &p}
}
func newMap() *cval {
	return &cval{kind: "map", m: map[string]interface{}{sk("k"): float64(1), nk(2): "x"}}
}

func listIdx(v *cval, i int) (int, bool) {
	n := len(*v.list)
	if i < 0 {
		i += n
	}
	return i, i >= 0 && i < n
}

func c05Ops() []cop {
	setIdx := func(target func(a, b **cval) *cval, idx int, val float64) func(a, b **cval) bool {
		return func(a, b **cval) bool {
			v := target(a, b)
			switch v.kind {
			case "list":
				i, ok := listIdx(v, idx)
				if !ok {
					return false
				}
				(*v.list)[i] = val
				return true
			case "map":
				v.m[nk(float64(idx))] = val
				return true
			}
			return false
		}
	}
	setKey := func(key string, val float64) func(a, b **cval) bool {
		return func(a, b **cval) bool {
			if (*a).kind == "map" {
				(*a).m[sk(key)] = val
				return true
			}
			return false
		}
	}
	A := func(a, b **cval) *cval { return *a }
	B := func(a, b **cval) *cval { return *b }
	return []cop{
		{"a := [1, 2]", func(a, b **cval) bool { *a = newList(); return true }},
		{"a := {\"k\": 1, 2: \"x\"}", func(a, b **cval) bool { *a = newMap(); return true }},
		{"b := a", func(a, b **cval) bool { *b = *a; return true }},
		{"a[0] := 9", setIdx(A, 0, 9)},
		{"a[\"k\"] := 8", setKey("k", 8)},
		{"a.k := 7", setKey("k", 7)},
		{"a[2] := 6", setIdx(A, 2, 6)},
		{"a[-1] := 3", setIdx(A, -1, 3)},
		{"b[1] := 4", setIdx(B, 1, 4)},
		{"a := add(a, 5)", func(a, b **cval) bool {
			if (*a).kind != "list" {
				return false
			}
			nl := append(append([]interface{}{}, *(*a).list...), float64(5))
			*(*a).poison = true // only the returned value may be used further
			p := false
			*a = &cval{kind: "list", list: &nl, poison: &p}
			return true
		}},
		{"a := del(a, 0)", func(a, b **cval) bool {
			switch (*a).kind {
			case "list":
				if len(*(*a).list) == 0 {
					return false
				}
				nl := append([]interface{}{}, (*(*a).list)[1:]...)
				*(*a).poison = true
				p := false
				*a = &cval{kind: "list", list: &nl, poison: &p}
				return true
			case "map":
				delete((*a).m, nk(0))
				return true
			}
			return false
		}},
		{"a := del(a, 2)", func(a, b **cval) bool {
			switch (*a).kind {
			case "list":
				if len(*(*a).list) <= 2 {
					return false
				}
				nl := append(append([]interface{}{}, (*(*a).list)[:2]...), (*(*a).list)[3:]...)
				*(*a).poison = true
				p := false
				*a = &cval{kind: "list", list: &nl, poison: &p}
				return true
			case "map":
				delete((*a).m, nk(2))
				return true
			}
			return false
		}},
		{"a := del(a, \"k\")", func(a, b **cval) bool {
			if (*a).kind == "map" {
				delete((*a).m, sk("k"))
				return true
			}
			return false
		}},
		{"b := concat(a, [7])", func(a, b **cval) bool {
			if (*a).kind != "list" {
				return false
			}
			// the result is a new list: a is untouched and independent
			nl := append(append([]interface{}{}, *(*a).list...), float64(7))
			p := false
			*b = &cval{kind: "list", list: &nl, poison: &p}
			return true
		}},
		{"b := concat(a, [])", func(a, b **cval) bool {
			if (*a).kind != "list" {
				return false
			}
			nl := append([]interface{}{}, *(*a).list...)
			p := false
			*b = &cval{kind: "list", list: &nl, poison: &p}
			return true
		}},
		{"a := concat(a, [7])", func(a, b **cval) bool {
			if (*a).kind != "list" {
				return false
			}
			nl := append(append([]interface{}{}, *(*a).list...), float64(7))
			p := false
			*a = &cval{kind: "list", list: &nl, poison: &p}
			return true
		}},
	}
}

type cprobe struct {
	label, src string
	read       func(a, b *cval) (string, bool) // value, ok (false: error expected)
}

func c05Probes() []cprobe {
	idx := func(name string, sel func(a, b *cval) *cval, i int) cprobe {
		return cprobe{fmt.Sprintf("%s[%d]", name, i), fmt.Sprintf("%s[%d]", name, i), func(a, b *cval) (string, bool) {
			v := sel(a, b)
			switch v.kind {
			case "list":
				if *v.poison {
					return "?", true
				}
				j, ok := listIdx(v, i)
				if !ok {
					return "", false
				}
				return modelRender((*v.list)[j]), true
			case "map":
				if e, ok := v.m[nk(float64(i))]; ok {
					return modelRender(e), true
				}
				return "null", true
			}
			return "", false
		}}
	}
	A := func(a, b *cval) *cval { return a }
	B := func(a, b *cval) *cval { return b }
	key := func(src string) cprobe {
		return cprobe{src, src, func(a, b *cval) (string, bool) {
			if a.kind == "map" {
				if e, ok := a.m[sk("k")]; ok {
					return modelRender(e), true
				}
				return "null", true
			}
			return "", false
		}}
	}
	ln := func(name string, sel func(a, b *cval) *cval) cprobe {
		return cprobe{"len(" + name + ")", "len(" + name + ")", func(a, b *cval) (string, bool) {
			v := sel(a, b)
			switch v.kind {
			case "list":
				if *v.poison {
					return "?", true
				}
				return fmt.Sprint(len(*v.list)), true
			case "map":
				return fmt.Sprint(len(v.m)), true
			}
			return "", false
		}}
	}
	return []cprobe{ln("a", A), ln("b", B), idx("a", A, 0), idx("a", A, 1), idx("a", A, 2), idx("a", A, -1), idx("b", B, 0), idx("b", B, 1), idx("b", B, 2), idx("b", B, -1), key(`a["k"]`), key("a.k")}
}

func c05Containers(c *Ctx, maxOps int) {
	ops := c05Ops()
	probes := c05Probes()
	seq := make([]int, 0, maxOps)
	var rec func()
	mine := true
	failed := map[string]bool{}
	rec = func() {
		if c.Stopped() {
			return
		}
		if len(seq) == 1 {
			mine = c.Mine() // a sequence and all its extensions go to the same shard
		}
		if len(seq) > 0 && mine {
			// a sequence that extends a failing one shows the same defect again
			pre := ""
			skip := false
			for _, oi := range seq[:len(seq)-1] {
				pre += fmt.Sprint(oi) + ","
				if failed[pre] {
					skip = true
				}
			}
			if skip {
				goto next
			}
			null := &cval{kind: "null"}
			a, b := null, null
			var sb strings.Builder
			sb.WriteString("a := null\nb := null\n")
			for _, oi := range seq {
				o := ops[oi]
				ca, cb := a, b
				if !o.do(&ca, &cb) {
					ca, cb = a, b
				}
				a, b = ca, cb
				fmt.Fprintf(&sb, "try {\n  %s\n} except {\n}\n", o.src)
			}
			var want []string
			for _, p := range probes {
				v, ok := p.read(a, b)
				if !ok {
					v = `"ERR"`
				}
				want = append(want, p.label+"="+v)
				fmt.Fprintf(&sb, "try {\n  probe(%q, %s)\n} except {\n  probe(%q, \"ERR\")\n}\n", p.label, p.src, p.label)
			}
			var steps []string
			for _, oi := range seq {
				steps = append(steps, ops[oi].src)
			}
			if !c05CompareSeq(c, sb.String(), want, steps) {
				k := ""
				for _, oi := range seq {
					k += fmt.Sprint(oi) + ","
				}
				failed[k] = true
			}
		}
	next:
		if len(seq) == maxOps {
			return
		}
		for i := range ops {
			seq = append(seq, i)
			rec()
			seq = seq[:len(seq)-1]
		}
	}
	rec()
}

func c05CompareSeq(c *Ctx, src string, want []string, steps []string) bool {
	c.Begin(strings.Join(steps, "; "))
	got, out := c05Eval(src)
	c.Nontrivial()
	if out.panicKey != "" {
		c.Viol("containers: "+out.panicKey, fmt.Sprintf("[%s] panics: %s", strings.Join(steps, "; "), out.panicMsg), src)
		return false
	}
	if out.stage != "eval" || out.err != nil {
		c.Viol("containers: program fails", fmt.Sprintf("[%s]: %s error %v", strings.Join(steps, "; "), out.stage, out.err), src)
		return false
	}
	for i := range want {
		if strings.HasSuffix(want[i], "=?") {
			continue
		}
		if i >= len(got) || got[i] != want[i] {
			g := "<missing>"
			if i < len(got) {
				g = got[i]
			}
			last := steps[len(steps)-1]
			lbl := want[i][:strings.Index(want[i], "=")]
			c.Viol(fmt.Sprintf("containers: after `%s` the read %s is wrong", c05OpClass(steps, lbl), lbl),
				fmt.Sprintf("after [%s] (last: %s) probe %s, the list/map model gives %s", strings.Join(steps, "; "), last, g, want[i]), src)
			return false
		}
	}
	c.Outcome("agrees")
	return true
}

// c05OpClass names the operation that is responsible for a wrong read: the
// last operation of the sequence (sequences are enumerated shortest first, so
// the first failing sequence ends in the culprit).
func c05OpClass(steps []string, label string) string {
	return steps[len(steps)-1]
}

// (4) objects -----------------------------------------------------------------------

func c05Objects(c *Ctx) {
	type prog struct {
		src  string
		want []string
	}
	base := "Base := {\n  \"name\": \"base\",\n  \"init\": func (n) {\n    this.name := n\n    this.inits := this.inits + 1\n  },\n  \"inits\": 0,\n  \"getName\": func () {\n    return this.name\n  }\n}\n"
	mixin := "Mixin := {\n  \"tag\": \"m\",\n  \"getTag\": func () {\n    return this.tag\n  }\n}\n"
	ps := []prog{
		{base + "o := new(Base, \"x\")\nprobe(\"template-property\", o.inits)\nprobe(\"init-argument\", o.name)\nprobe(\"method-sees-this\", o.getName())\n",
			[]string{"template-property=1", `init-argument="x"`, `method-sees-this="x"`}},
		{base + "o1 := new(Base, \"x\")\no2 := new(Base, \"y\")\nprobe(\"instances-independent#1\", o1.getName())\nprobe(\"instances-independent#2\", o2.getName())\nprobe(\"template-untouched\", Base.name)\n",
			[]string{`instances-independent#1="x"`, `instances-independent#2="y"`, `template-untouched="base"`}},
		{base + "Child := {\n  \"super\": [Base],\n  \"extra\": 1,\n  \"init\": func (n, e) {\n    super[0](n)\n    this.extra := e\n  }\n}\no := new(Child, \"c\", 5)\nprobe(\"inherited-method\", o.getName())\nprobe(\"own-property\", o.extra)\nprobe(\"super-init-ran-once\", o.inits)\n",
			[]string{`inherited-method="c"`, "own-property=5", "super-init-ran-once=1"}},
		{base + mixin + "Child := {\n  \"super\": [Base, Mixin],\n  \"init\": func (n) {\n    super[0](n)\n  }\n}\no := new(Child, \"c\")\nprobe(\"multiple-inheritance#1\", o.getName())\nprobe(\"multiple-inheritance#2\", o.getTag())\nprobe(\"multiple-inheritance#3\", o.tag)\n",
			[]string{`multiple-inheritance#1="c"`, `multiple-inheritance#2="m"`, `multiple-inheritance#3="m"`}},
		{mixin + "o := new(Mixin)\nprobe(\"no-init\", o.getTag())\no.tag := \"z\"\nprobe(\"property-write\", o.getTag())\nprobe(\"template-untouched\", Mixin.tag)\n",
			[]string{`no-init="m"`, `property-write="z"`, `template-untouched="m"`}},
		{base + "Mid := {\n  \"super\": [Base],\n  \"init\": func (n) {\n    super[0](n)\n  }\n}\nLeaf := {\n  \"super\": [Mid],\n  \"init\": func (n) {\n    super[0](n)\n  }\n}\no := new(Leaf, \"deep\")\nprobe(\"two-level-inheritance#1\", o.getName())\nprobe(\"two-level-inheritance#2\", o.inits)\n",
			[]string{`two-level-inheritance#1="deep"`, "two-level-inheritance#2=1"}},
		{"Counter := {\n  \"n\": 0,\n  \"inc\": func () {\n    this.n := this.n + 1\n    return this.n\n  }\n}\no := new(Counter)\no.inc()\no.inc()\np := new(Counter)\nprobe(\"method-writes-this#1\", o.n)\nprobe(\"method-writes-this#2\", p.n)\n",
			[]string{"method-writes-this#1=2", "method-writes-this#2=0"}},
	}
	for _, p := range ps {
		if c.Mine() {
			c05Compare(c, "objects", p.src, p.want)
		}
	}
	// generated inheritance shapes: 1-3 super templates, each with or without
	// its own constructor, every template carrying a property and a method; the
	// sub template's init calls the constructor of every super that has one by
	// its position in the super list (super[i] is the constructor of the i-th
	// entry), in ascending and in descending order
	for n := 1; n <= 3; n++ {
		for mask := 0; mask < 1<<uint(n); mask++ {
			for _, desc := range []bool{false, true} {
				if !c.Mine() {
					continue
				}
				var b strings.Builder
				var supers, calls, want []string
				for i := 0; i < n; i++ {
					fmt.Fprintf(&b, "S%d := {\n  \"p%d\": %d,\n  \"m%d\": func () {\n    return this.p%d + 100\n  }", i, i, i, i, i)
					if mask&(1<<uint(i)) != 0 {
						fmt.Fprintf(&b, ",\n  \"init\": func (v) {\n    this.s%d := v\n  }", i)
						calls = append(calls, fmt.Sprintf("    super[%d](a%d)\n", i, i))
					}
					b.WriteString("\n}\n")
					supers = append(supers, fmt.Sprintf("S%d", i))
				}
				if desc {
					for l, r := 0, len(calls)-1; l < r; l, r = l+1, r-1 {
						calls[l], calls[r] = calls[r], calls[l]
					}
				}
				var params, args []string
				for i := 0; i < n; i++ {
					params = append(params, fmt.Sprintf("a%d", i))
					args = append(args, fmt.Sprint(10+i))
				}
				fmt.Fprintf(&b, "Child := {\n  \"super\": [%s],\n  \"own\": 7,\n  \"init\": func (%s) {\n%s    this.own := 8\n  }\n}\no := new(Child, %s)\n",
					strings.Join(supers, ", "), strings.Join(params, ", "), strings.Join(calls, ""), strings.Join(args, ", "))
				b.WriteString("probe(\"own\", o.own)\n")
				want = append(want, "own=8")
				for i := 0; i < n; i++ {
					fmt.Fprintf(&b, "probe(\"inherited-property-%d\", o.p%d)\nprobe(\"inherited-method-%d\", o.m%d())\n", i, i, i, i)
					want = append(want, fmt.Sprintf("inherited-property-%d=%d", i, i), fmt.Sprintf("inherited-method-%d=%d", i, i+100))
					if mask&(1<<uint(i)) != 0 {
						fmt.Fprintf(&b, "probe(\"super-constructor-%d\", o.s%d)\n", i, i)
						want = append(want, fmt.Sprintf("super-constructor-%d=%d", i, 10+i))
					}
				}
				c05Compare(c, "objects", b.String(), want)
			}
		}
	}
	// value / reference semantics
	vr := []prog{
		{"x := 1\ny := x\ny := 2\nprobe(\"number-by-value\", x)\n", []string{"number-by-value=1"}},
		{"x := \"s\"\ny := x\ny := \"t\"\nprobe(\"string-by-value\", x)\n", []string{`string-by-value="s"`}},
		{"x := true\ny := x\ny := false\nprobe(\"bool-by-value\", x)\n", []string{"bool-by-value=true"}},
		{"a := [1, 2]\nb := a\nb[0] := 9\nprobe(\"list-by-reference\", a[0])\n", []string{"list-by-reference=9"}},
		{"a := {\"k\": 1}\nb := a\nb.k := 9\nprobe(\"map-by-reference\", a.k)\n", []string{"map-by-reference=9"}},
		{"a := [1, 2]\nfunc f(l) {\n  l[0] := 7\n}\nf(a)\nprobe(\"list-parameter-by-reference\", a[0])\n", []string{"list-parameter-by-reference=7"}},
		{"a := {\"k\": 1}\nfunc f(m) {\n  m.k := 7\n  m[\"j\"] := 8\n}\nf(a)\nprobe(\"map-parameter-by-reference#1\", a.k)\nprobe(\"map-parameter-by-reference#2\", a.j)\n", []string{"map-parameter-by-reference#1=7", "map-parameter-by-reference#2=8"}},
		{"a := {\"k\": {\"l\": [1, {\"m\": 2}]}}\na.k.l[1].m := 5\nprobe(\"nested-path#1\", a.k.l[1].m)\na[\"k\"][\"l\"][0] := 6\nprobe(\"nested-path#2\", a.k.l[0])\nprobe(\"nested-path#3\", a[\"k\"].l[-1][\"m\"])\n", []string{"nested-path#1=5", "nested-path#2=6", "nested-path#3=5"}},
		{"m := {1: \"a\"}\nm[1] := \"b\"\nprobe(\"number-key-write-then-read\", m[1])\nprobe(\"number-key-len\", len(m))\n", []string{`number-key-write-then-read="b"`, "number-key-len=1"}},
		// every evaluation of a container literal yields a new container (a function called twice, a loop body)
		{"func mk() {\n  let l := [1, 2, 3]\n  return l\n}\na := mk()\nb := mk()\na[0] := 9\nprobe(\"fresh-list-literal#1\", b[0])\nc := mk()\nprobe(\"fresh-list-literal#2\", c[0])\n", []string{"fresh-list-literal#1=1", "fresh-list-literal#2=1"}},
		{"acc := []\nfor i in range(1, 3) {\n  row := [0, 0]\n  row[0] := i\n  acc := add(acc, row)\n}\nprobe(\"fresh-list-literal#3\", acc)\n", []string{"fresh-list-literal#3=[[1,0],[2,0],[3,0]]"}},
		{"func mk() {\n  return {\"k\": 0, \"l\": [true, null]}\n}\na := mk()\nb := mk()\na.k := 9\na.l[0] := false\nprobe(\"fresh-map-literal#1\", b.k)\nprobe(\"fresh-map-literal#2\", b.l[0])\n", []string{"fresh-map-literal#1=0", "fresh-map-literal#2=true"}},
		{"func mk() {\n  return [[1], [2]]\n}\na := mk()\na[0][0] := 9\nb := mk()\nprobe(\"fresh-nested-literal\", b[0][0])\n", []string{"fresh-nested-literal=1"}},
		// except / otherwise / finally blocks are siblings of the try block, not its children: names local to the try block are not visible in them
		{"x := \"global\"\ntry {\n  let x := \"inner\"\n  raise(\"E\")\n} except e {\n  probe(\"handler-sees-enclosing#1\", x)\n  x := \"assigned\"\n} finally {\n  probe(\"handler-sees-enclosing#2\", x)\n}\nprobe(\"handler-sees-enclosing#3\", x)\n",
			[]string{`handler-sees-enclosing#1="global"`, `handler-sees-enclosing#2="assigned"`, `handler-sees-enclosing#3="assigned"`}},
		{"func f() {\n  let r := []\n  try {\n    fresh := 1\n    let z := 2\n    raise(\"E\")\n  } except \"X\" {\n    r := add(r, \"wrong\")\n  } except {\n    r := add(r, fresh)\n    r := add(r, z)\n  }\n  return r\n}\nprobe(\"try-locals-not-in-handler\", f())\n",
			[]string{"try-locals-not-in-handler=[null,null]"}},
		{"x := 1\ntry {\n  let x := 2\n} otherwise {\n  probe(\"otherwise-sees-enclosing\", x)\n}\n", []string{"otherwise-sees-enclosing=1"}},
		// a map holding the number key 1 and the string key "1": whatever entry a write goes to, the same expression reads it back
		{"m := {1: \"num\", \"1\": \"str\"}\nm[1] := \"new\"\nprobe(\"both-key-kinds#1\", m[1])\nm[\"1\"] := \"s2\"\nprobe(\"both-key-kinds#2\", m[\"1\"])\n", []string{`both-key-kinds#1="new"`, `both-key-kinds#2="s2"`}},
		{"m := {\"1\": \"str\", 1: \"num\"}\nn := m\nn[1] := \"new\"\nprobe(\"both-key-kinds#3\", m[1])\nk := {\"inner\": m}\nk.inner[1] := \"deep\"\nprobe(\"both-key-kinds#4\", k.inner[1])\n", []string{`both-key-kinds#3="new"`, `both-key-kinds#4="deep"`}},
		{"m := {}\nm[1] := \"b\"\nm[\"s\"] := \"c\"\nprobe(\"new-keys#1\", m[1])\nprobe(\"new-keys#2\", m[\"s\"])\nprobe(\"new-keys#3\", m.s)\nprobe(\"new-keys#4\", len(m))\n", []string{`new-keys#1="b"`, `new-keys#2="c"`, `new-keys#3="c"`, "new-keys#4=2"}},
		{"i := 1\na := [1, 2, 3]\na[i] := 9\nprobe(\"variable-index#1\", a[i])\nprobe(\"variable-index#2\", a[1])\nm := {\"x\": 1}\nk := \"x\"\nm[k] := 5\nprobe(\"variable-key\", m.x)\n", []string{"variable-index#1=9", "variable-index#2=9", "variable-key=5"}},
	}
	for _, p := range vr {
		if c.Mine() {
			c05Compare(c, "values-and-references", p.src, p.want)
		}
	}
}

func init() {
	replay := func(c *Ctx, in string) {
		got, out := c05Eval(in)
		fmt.Println("probes:", got, "error:", out.err, "panic:", out.panicKey)
	}
	register(&Part{Prop: "C05", Name: "scoping", Quick: 4, Thor: 4, Replay: replay,
		Desc: "global definition (yes/no) x outer block kind (if, for, function, mutex, try) x outer statement (none, a := 2, let a := 2) x inner block kind x inner statement x a later let in the outer block, probed at the inner, outer and global level: 900 programs against an environment-chain model (blocks open a frame, assignment updates the nearest definition else defines locally, let defines locally, function bodies are parented to the declaration scope)",
		Rule: "full product; all programs non-trivial",
		Run: func(c *Ctx) {
			c05Scoping(c)
			c.Sample("a := 1\nif true {\n  let a := 2\n  func fi() {\n    a := 3\n    probe(\"inner\", a)\n  }\n  fi()\n  probe(\"outer\", a)\n}\nprobe(\"global\", a)")
		}})
	register(&Part{Prop: "C05", Name: "functions-objects-values", Quick: 1, Thor: 1, Replay: replay,
		Desc: "parameters x 5 default kinds x 0-3 arguments; passed / defaulted / missing parameters whose name also exists in the global or enclosing function scope (outer variable untouched); closures (counter, captured in list, later update), recursion with locals, lexical-not-dynamic resolution, fresh locals per call, no leak of call locals and parameters, first-class functions; objects (template properties, init arguments, this, independent instances, single / multiple / two-level inheritance with super constructors, methods writing this); value vs reference semantics for every scalar kind and for lists/maps through a second name and through parameters; nested container paths; write-then-read for number and string keys",
		Rule: "hand-enumerated families with computed expectations; all non-trivial",
		Run: func(c *Ctx) {
			c05Functions(c)
			c05Objects(c)
			c.Sample("m := {1: \"a\"}; m[1] := \"b\"; probe(\"x\", m[1])")
		}})
	register(&Part{Prop: "C05", Name: "container-sequences", Quick: 16, Thor: 32, Replay: replay,
		Desc: "every sequence of <= 3 (thorough 4) operations over 16 operations on two names (new list, new map with a string and a number key, alias, index / key / dot writes incl. negative and out-of-range indices, add, del by index / number key / string key, concat), each wrapped in try so that a failing operation has no effect, followed by 10 probes (len, indices 0, 1, 2, -1 of both names, a[\"k\"], a.k) compared with a Go slice/map model; reads of the argument of add/del after the call are left open",
		Rule: "odometer over operation sequences; all non-trivial; probes the model leaves open are skipped",
		Run: func(c *Ctx) {
			n := 3
			if c.Thorough() {
				n = 4
			}
			c05Containers(c, n)
			c.Sample("a := {\"k\": 1, 2: \"x\"}; a[2] := 6; probe a[2]")
		}})
}
