package main

import (
	"fmt"
	"math"
	"regexp"
	"strings"
)

// ---------------------------------------------------------------------------
// Reference semantics for ECAL expressions. It works on the generator's own
// trees (never on the parser's), encodes only what ecal.md and the property
// statements define and answers Unspecified wherever they are silent.

type xkind int

const (
	xLit xkind = iota // literal or variable operand
	xBin
	xPre
)

type xnode struct {
	kind  xkind
	op    string
	l, r  *xnode
	src   string      // source text of an operand
	val   interface{} // value of an operand
	isVar bool
}

type rkind int

const (
	rVal rkind = iota
	rErr
	rUnspec
)

type rres struct {
	k       rkind
	v       interface{}
	etype   string // "Operand is not a number" | "Operand is not a boolean"
	operand string // source text of the offending operand if it is a leaf
	why     string
}

func rv(v interface{}) rres   { return rres{k: rVal, v: v} }
func runspec(why string) rres { return rres{k: rUnspec, why: why} }

const (
	errNotNum  = "Operand is not a number"
	errNotBool = "Operand is not a boolean"
	errNotList = "Operand is not a list"
)

func operandText(n *xnode) string {
	if n.kind == xLit {
		if strings.ContainsAny(n.src, "([.") && !strings.HasPrefix(n.src, "\"") && n.src != "2.5" {
			return "" // composite operand: the detail text is not compared
		}
		if s, ok := n.val.(string); ok && !n.isVar {
			if strings.Contains(n.src, "{{") {
				return "" // interpolating literal: the detail is not compared
			}
			return s // the detail of a string literal is its value
		}
		return n.src
	}
	return ""
}

var arithOps = map[string]bool{"+": true, "-": true, "*": true, "/": true, "//": true, "%": true}
var cmpOps = map[string]bool{">": true, ">=": true, "<": true, "<=": true}

func refEval(n *xnode) rres {
	switch n.kind {
	case xLit:
		return rv(n.val)
	case xPre:
		o := refEval(n.l)
		if o.k != rVal {
			return o
		}
		switch n.op {
		case "-", "+":
			f, ok := o.v.(float64)
			if !ok {
				return rres{k: rErr, etype: errNotNum, operand: operandText(n.l)}
			}
			if n.op == "-" {
				return rv(-f)
			}
			return rv(f)
		case "not":
			b, ok := o.v.(bool)
			if !ok {
				return rres{k: rErr, etype: errNotBool, operand: operandText(n.l)}
			}
			return rv(!b)
		}
	case xBin:
		a := refEval(n.l)
		if a.k == rErr {
			return a // operands are evaluated left to right
		}
		b := refEval(n.r)
		if a.k == rUnspec {
			return a
		}
		if b.k != rVal {
			return b
		}
		op := n.op
		switch {
		case arithOps[op]:
			x, ok1 := a.v.(float64)
			y, ok2 := b.v.(float64)
			if !ok1 {
				return rres{k: rErr, etype: errNotNum, operand: operandText(n.l)}
			}
			if !ok2 {
				return rres{k: rErr, etype: errNotNum, operand: operandText(n.r)}
			}
			switch op {
			case "+":
				return rv(x + y)
			case "-":
				return rv(x - y)
			case "*":
				return rv(x * y)
			case "/":
				if y == 0 {
					return runspec("division by zero")
				}
				return rv(x / y)
			case "//":
				if y == 0 {
					return runspec("division by zero")
				}
				return rv(math.Floor(x / y))
			case "%":
				// "integer modulo" (ecal.md): the remainder of the operands taken as
				// integers, i.e. truncated (the repository's own `5.2 % 2` is 1);
				// left open: negative operands (sign convention) and a divisor
				// that truncates to zero
				if x < 0 || y < 1 || math.Abs(x) > 1<<53 || math.Abs(y) > 1<<53 {
					return runspec("modulo with a negative operand or a divisor below 1")
				}
				return rv(float64(int64(x) % int64(y)))
			}
		case cmpOps[op]:
			if x, ok := a.v.(float64); ok {
				if y, ok := b.v.(float64); ok {
					switch op {
					case ">":
						return rv(x > y)
					case ">=":
						return rv(x >= y)
					case "<":
						return rv(x < y)
					default:
						return rv(x <= y)
					}
				}
			}
			if x, ok := a.v.(string); ok {
				if y, ok := b.v.(string); ok {
					switch op {
					case ">":
						return rv(x > y)
					case ">=":
						return rv(x >= y)
					case "<":
						return rv(x < y)
					default:
						return rv(x <= y)
					}
				}
			}
			return runspec("ordering of different kinds / booleans / null")
		case op == "==" || op == "!=":
			if isContainer(a.v) || isContainer(b.v) {
				return runspec("equality of containers")
			}
			eq := a.v == b.v
			if op == "!=" {
				eq = !eq
			}
			return rv(eq)
		case op == "and" || op == "or":
			x, ok1 := a.v.(bool)
			y, ok2 := b.v.(bool)
			if !ok1 {
				return rres{k: rErr, etype: errNotBool, operand: operandText(n.l)}
			}
			if !ok2 {
				return rres{k: rErr, etype: errNotBool, operand: operandText(n.r)}
			}
			if op == "and" {
				return rv(x && y)
			}
			return rv(x || y)
		case op == "like":
			x, ok1 := a.v.(string)
			y, ok2 := b.v.(string)
			if !ok1 || !ok2 {
				return runspec("like on non-strings")
			}
			re, err := regexp.Compile(y)
			if err != nil {
				return runspec("invalid pattern")
			}
			return rv(re.MatchString(x))
		case op == "hasprefix" || op == "hassuffix":
			x, ok1 := a.v.(string)
			y, ok2 := b.v.(string)
			if !ok1 || !ok2 {
				return runspec("prefix/suffix on non-strings")
			}
			if op == "hasprefix" {
				return rv(strings.HasPrefix(x, y))
			}
			return rv(strings.HasSuffix(x, y))
		case op == "in" || op == "notin":
			l, ok := b.v.([]interface{})
			if !ok {
				return runspec("membership in a non-list")
			}
			if isContainer(a.v) {
				return runspec("membership of a container")
			}
			found := false
			for _, e := range l {
				if !isContainer(e) && e == a.v {
					found = true
				}
			}
			if op == "notin" {
				found = !found
			}
			return rv(found)
		}
	}
	return runspec("?")
}

func isContainer(v interface{}) bool {
	switch v.(type) {
	case []interface{}, map[interface{}]interface{}:
		return true
	}
	return false
}

// precedence as stated by the property: multiplicative > additive >
// comparison/membership > and > or
func statedPrec(op string) int {
	switch op {
	case "*", "/", "//", "%":
		return 5
	case "+", "-":
		return 4
	case "and":
		return 2
	case "or":
		return 1
	}
	return 3
}

// flatParse builds the tree of an unparenthesised operand/operator sequence by
// precedence climbing over the stated table: binary operators are left
// associative, prefix +/- bind tightest, not applies to the following
// comparison.
type ftok struct {
	operand *xnode
	op      string // binary operator, or prefix operator when prefix is set
	prefix  bool
}

func flatParse(toks []ftok) *xnode {
	pos := 0
	var expr func(min int) *xnode
	var primary func() *xnode
	primary = func() *xnode {
		t := toks[pos]
		if t.prefix {
			pos++
			if t.op == "not" {
				return &xnode{kind: xPre, op: "not", l: expr(3)}
			}
			return &xnode{kind: xPre, op: t.op, l: primary()}
		}
		pos++
		return t.operand
	}
	expr = func(min int) *xnode {
		left := primary()
		for pos < len(toks) && !toks[pos].prefix && toks[pos].operand == nil && statedPrec(toks[pos].op) >= min {
			op := toks[pos].op
			pos++
			right := expr(statedPrec(op) + 1)
			left = &xnode{kind: xBin, op: op, l: left, r: right}
		}
		return left
	}
	return expr(0)
}

func flatSource(toks []ftok, sep string) string {
	var b strings.Builder
	for i, t := range toks {
		if i > 0 {
			if toks[i-1].operand == nil && !toks[i-1].prefix {
				b.WriteString(sep) // after a binary operator
			} else {
				b.WriteString(" ")
			}
		}
		if t.operand != nil {
			b.WriteString(t.operand.src)
		} else {
			b.WriteString(t.op)
		}
	}
	return b.String()
}

// fullSource renders a tree with parentheses around every compound sub-term.
func fullSource(n *xnode, sep string, top bool) string {
	var s string
	switch n.kind {
	case xLit:
		return n.src
	case xPre:
		s = n.op + " " + fullSource(n.l, sep, false)
	case xBin:
		s = fullSource(n.l, sep, false) + " " + n.op + sep + fullSource(n.r, sep, false)
	}
	if top {
		return s
	}
	return "(" + s + ")"
}

func sameValue(a, b interface{}) bool {
	fa, ok1 := a.(float64)
	fb, ok2 := b.(float64)
	if ok1 && ok2 {
		return fa == fb || (math.IsNaN(fa) && math.IsNaN(fb)) || math.Float64bits(fa) == math.Float64bits(fb)
	}
	if ok1 != ok2 {
		return false
	}
	return render(a) == render(b) && fmt.Sprintf("%T", a) == fmt.Sprintf("%T", b)
}
