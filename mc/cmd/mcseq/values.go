package main

import (
	"fmt"
	"math"
	"sort"
	"strings"
)

// The ECAL value universe U shared by several properties.
type uval struct {
	name string
	v    func() interface{} // fresh value (containers must not be shared between cases)
	src  string             // ECAL source text producing the value ("" if not expressible)
}

type dummyFunc struct{}

var universe = []uval{
	{"null", func() interface{} { return nil }, "null"},
	{"true", func() interface{} { return true }, "true"},
	{"false", func() interface{} { return false }, "false"},
	{"0", func() interface{} { return float64(0) }, "0"},
	{"1", func() interface{} { return float64(1) }, "1"},
	{"-1", func() interface{} { return float64(-1) }, "-1"},
	{"2.5", func() interface{} { return 2.5 }, "2.5"},
	{"1e300", func() interface{} { return 1e300 }, "1e+300"},
	{"emptystr", func() interface{} { return "" }, `""`},
	{"a", func() interface{} { return "a" }, `"a"`},
	{"s1", func() interface{} { return "1" }, `"1"`},
	{"[]", func() interface{} { return []interface{}{} }, "[]"},
	{"[1]", func() interface{} { return []interface{}{float64(1)} }, "[1]"},
	{"[[1]]", func() interface{} { return []interface{}{[]interface{}{float64(1)}} }, "[[1]]"},
	{"{}", func() interface{} { return map[interface{}]interface{}{} }, "{}"},
	{"{a:1}", func() interface{} { return map[interface{}]interface{}{"a": float64(1)} }, `{"a":1}`},
	{"{1:x}", func() interface{} { return map[interface{}]interface{}{float64(1): "x"} }, `{1:"x"}`},
}

var universeExtra = []uval{
	{"3", func() interface{} { return float64(3) }, "3"},
	{"-3", func() interface{} { return float64(-3) }, "-3"},
	{"255", func() interface{} { return float64(255) }, "255"},
	{"256", func() interface{} { return float64(256) }, "256"},
	{"2^31", func() interface{} { return float64(1 << 31) }, "2147483648"},
	{"2^53", func() interface{} { return float64(1 << 53) }, "9007199254740992"},
	{"-0.5", func() interface{} { return -0.5 }, "-0.5"},
}

// vectors enumerates all argument vectors of length 0..maxLen over u.
func vectors(u []uval, maxLen int, f func(idx []int) bool) {
	var rec func(cur []int) bool
	rec = func(cur []int) bool {
		if !f(cur) {
			return false
		}
		if len(cur) == maxLen {
			return true
		}
		for i := range u {
			if !rec(append(cur, i)) {
				return false
			}
		}
		return true
	}
	rec(nil)
}

func vecNames(u []uval, idx []int) string {
	var n []string
	for _, i := range idx {
		n = append(n, u[i].name)
	}
	return "(" + strings.Join(n, ", ") + ")"
}

func vecValues(u []uval, idx []int) []interface{} {
	out := make([]interface{}, len(idx))
	for k, i := range idx {
		out[k] = u[i].v()
	}
	return out
}

// render gives a canonical string of an ECAL value (maps sorted by key).
func render(v interface{}) string {
	switch x := v.(type) {
	case nil:
		return "null"
	case float64:
		if math.IsNaN(x) {
			return "NaN"
		}
		return fmt.Sprintf("%v", x)
	case string:
		return fmt.Sprintf("%q", x)
	case bool:
		return fmt.Sprint(x)
	case []interface{}:
		var p []string
		for _, e := range x {
			p = append(p, render(e))
		}
		return "[" + strings.Join(p, ",") + "]"
	case map[interface{}]interface{}:
		var p []string
		for k, e := range x {
			p = append(p, render(k)+":"+render(e))
		}
		sort.Strings(p)
		return "{" + strings.Join(p, ",") + "}"
	}
	return fmt.Sprintf("<%T>", v)
}
