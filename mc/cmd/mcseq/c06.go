package main

import (
	"fmt"
	"strings"

	"github.com/krotik/ecal/interpreter"
	"github.com/krotik/ecal/parser"
	"github.com/krotik/ecal/util"
)

// ---------------------------------------------------------------------------
// C06 — no ECAL program, sink attribute or event can crash the host process

var c06U = append(append([]uval{}, universe...), uval{"fn", nil, "func () { return 1 }"}, uval{"-0.5", nil, "-0.5"}, uval{"3", nil, "3"},
	// the non-finite numbers: every comparison with NaN is false, so a bounds check written as a float comparison lets it through
	// a string that is not a valid regular expression (every failing case is evaluated a second time inside try/except: error paths that leave state behind)
	uval{"badre", nil, `"("`},
	// containers that hold containers (comparison and membership recurse)
	uval{"{a:[1]}", nil, `{"a":[1]}`},
	uval{"NaN", nil, "math.naN()"}, uval{"+Inf", nil, "math.inf(1)"}, uval{"-Inf", nil, "math.inf(-1)"})

func isControl(err error) bool {
	if err == nil {
		return false
	}
	s := err.Error()
	return strings.Contains(s, "*** return ***") || strings.Contains(s, "End of iteration") || strings.Contains(s, "Continue iteration") || strings.Contains(s, "is an iterator")
}

// c06Stmt evaluates a statement (after an optional prelude) plainly and, if it
// raises an error, again inside try/except where the error must be catchable.
func c06Stmt(c *Ctx, prelude, stmt string, class string) {
	src := prelude + stmt
	c.Risky(src)
	out := evalECAL(src, evalOpts{budget: 3000})
	c.Nontrivial()
	if out.panicKey != "" {
		c.Viol(class+": "+out.panicKey, fmt.Sprintf("%q panics during %s: %s", src, out.stage, out.panicMsg), src)
		return
	}
	if out.budget {
		c.Outcome("budget")
		return
	}
	if out.stage != "eval" {
		c.Outcome("rejected")
		return
	}
	if out.err == nil {
		c.Outcome("value")
		return
	}
	c.Outcome("error")
	if isControl(out.err) {
		return
	}
	// the same error raised inside try must be catchable there
	wrapped := prelude + "caught := 0\ntry {\n" + stmt + "\n} except e {\ncaught := 1\n}"
	c.Risky(wrapped)
	o2 := evalECAL(wrapped, evalOpts{budget: 3000})
	if o2.panicKey != "" {
		c.Viol(class+" inside try: "+o2.panicKey, fmt.Sprintf("%q panics: %s", wrapped, o2.panicMsg), wrapped)
		return
	}
	if o2.budget || o2.stage != "eval" {
		return
	}
	v, _, _ := o2.vs.GetValue("caught")
	if o2.err != nil || v != float64(1) {
		c.Viol(class+": error not catchable by try/except", fmt.Sprintf("%q: plain evaluation fails with %v, inside try the except clause was not reached (caught=%v, error %v)", wrapped, out.err, v, o2.err), wrapped)
	}
}

func c06Operators(c *Ctx) {
	for _, a := range c06U {
		for _, p := range []string{"-", "+", "not "} {
			if c.Mine() {
				c06Stmt(c, "", "r := "+p+a.src, "prefix operator "+strings.TrimSpace(p))
				c06Stmt(c, "v := "+a.src+"\n", "r := "+p+"v", "prefix operator "+strings.TrimSpace(p))
			}
		}
		for _, o := range c03Bin {
			for _, b := range c06U {
				if c.Stopped() {
					return
				}
				if !c.Mine() {
					continue
				}
				c06Stmt(c, "", fmt.Sprintf("r := %s %s %s", a.src, o, b.src), "operator "+o)
				c06Stmt(c, fmt.Sprintf("x := %s\ny := %s\n", a.src, b.src), fmt.Sprintf("r := x %s y", o), "operator "+o)
			}
		}
	}
}

var c06Builtins = []string{"range", "new", "type", "len", "del", "add", "concat", "now", "rand", "timestamp", "dumpenv", "doc", "sleep", "raise", "addEvent", "addEventAndWait", "setCronTrigger", "setPulseTrigger"}

func c06BuiltinCalls(c *Ctx, maxLen int) {
	for _, fn := range c06Builtins {
		vectors(c06U, maxLen, func(idx []int) bool {
			if !c.Mine() {
				return !c.Stopped()
			}
			if len(idx) > 0 {
				first := c06U[idx[0]]
				switch fn {
				case "sleep":
					if first.name == "1e300" || first.name == "3" || first.name == "2.5" || first.name == "1" {
						return true // documented non-termination / real sleeping
					}
				case "setPulseTrigger", "setCronTrigger":
					if len(idx) >= 3 {
						return true // valid calls start background triggers for ever
					}
				case "range":
					return true // range is an iterator: covered by the loop forms below
				}
			}
			var args []string
			for _, i := range idx {
				args = append(args, c06U[i].src)
			}
			call := fmt.Sprintf("%s(%s)", fn, strings.Join(args, ", "))
			c06Stmt(c, "", "r := "+call, "builtin "+fn)
			return true
		})
		// arguments given through variables (different runtime path for identifiers)
		vectors(c06U, 2, func(idx []int) bool {
			if len(idx) == 0 || !c.Mine() {
				return !c.Stopped()
			}
			if fn == "sleep" || fn == "range" {
				return true
			}
			var pre, args []string
			for k, i := range idx {
				pre = append(pre, fmt.Sprintf("a%d := %s", k, c06U[i].src))
				args = append(args, fmt.Sprintf("a%d", k))
			}
			c06Stmt(c, strings.Join(pre, "\n")+"\n", fmt.Sprintf("r := %s(%s)", fn, strings.Join(args, ", ")), "builtin "+fn)
			return true
		})
	}
	// argument expression shapes: the same values reached through a call, an
	// index access, a field access and parentheses (built-ins that look at the
	// argument's syntax tree, like doc, see a different node kind)
	for _, fn := range c06Builtins {
		if fn == "sleep" || fn == "range" {
			continue
		}
		vectors(c06U, 2, func(idx []int) bool {
			if len(idx) == 0 || !c.Mine() {
				return !c.Stopped()
			}
			var vals []string
			for _, i := range idx {
				vals = append(vals, c06U[i].src)
			}
			for len(vals) < 2 {
				vals = append(vals, "null")
			}
			pre := fmt.Sprintf("func id(x) {\n  return x\n}\nl := [%s, %s]\nm := {\"k0\": %s, \"k1\": %s}\n", vals[0], vals[1], vals[0], vals[1])
			for _, shape := range [][2]string{{"id(%s)", ""}, {"l[%d]", "i"}, {"m.k%d", "i"}, {"(%s)", ""}, {"m[\"k%d\"]", "i"}} {
				var args []string
				for k := range idx {
					if shape[1] == "i" {
						args = append(args, fmt.Sprintf(shape[0], k))
					} else {
						args = append(args, fmt.Sprintf(shape[0], vals[k]))
					}
				}
				if (fn == "setPulseTrigger" || fn == "setCronTrigger") && len(args) >= 3 {
					continue
				}
				c06Stmt(c, pre, fmt.Sprintf("r := %s(%s)", fn, strings.Join(args, ", ")), "builtin "+fn)
			}
			return true
		})
	}
	// loop forms over arbitrary values and ranges
	for _, a := range c06U {
		for _, b := range c06U {
			if c.Stopped() || !c.Mine() {
				continue
			}
			for _, st := range []string{
				fmt.Sprintf("for x in range(%s, %s) { break }", a.src, b.src),
				fmt.Sprintf("for x in range(1, %s, %s) { break }", a.src, b.src),
				fmt.Sprintf("for x in %s { r := x %s }", a.src, "== "+b.src),
				fmt.Sprintf("for [x, y] in %s { break }", a.src),
				fmt.Sprintf("for %s { break }", a.src),
				fmt.Sprintf("if %s { r := 1 } elif %s { r := 2 }", a.src, b.src),
				fmt.Sprintf("r := new(%s, %s)", a.src, b.src),
				fmt.Sprintf("o := new({\"init\": %s, \"super\": %s})", a.src, b.src),
				fmt.Sprintf("o := new({\"super\": [{\"init\": %s}], \"init\": func () { super[0](%s) }})", a.src, b.src),
				fmt.Sprintf("func f(a=%s) { return a }\nr := f(%s)", a.src, b.src),
				fmt.Sprintf("[x, y] := %s", a.src),
				fmt.Sprintf("let [x, y] := %s", a.src),
				fmt.Sprintf("mutex m { r := %s + %s }", a.src, b.src),
				fmt.Sprintf("r := \"{{%s}}\"", strings.Replace(a.src, `"`, `'`, -1)),
				// every field of a caught error object is an ECAL value: usable with every operator and built-in
				fmt.Sprintf("func g(x) {\n  return x + %s\n}\ntry {\n  g(%s)\n} except e {\n  r := [e.trace == e.trace, e.trace != [], e.trace in [e.trace], len(e.trace), e.trace[0], concat(e.trace, [1]), e.data == e.data, e.type + e.detail, e.line + e.pos, e.source, e.error]\n  for t in e.trace {\n    u := t\n  }\n  e.trace := add(e.trace, 1)\n}", a.src, b.src),
				fmt.Sprintf("try {\n  raise(%s, %s, %s)\n} except e {\n  r := [e.data == e.data, e.data == %s, e.data in [e.data], e.type == e.type, e.detail == %s, e.trace == e.trace, len(e.trace)]\n}", a.src, b.src, a.src, a.src, b.src),
				// a caught error whose trace runs through a commented call (the trace is pretty-printed)
				fmt.Sprintf("func g(x) {\n  return x + %s\n}\ntry {\n  /**/ g(%s)\n} except e {\n  r := e.trace\n}", a.src, b.src),
				fmt.Sprintf("func g(x) {\n  return x + %s\n}\ntry {\n  /* c\n d */ g(%s) # e\n} except e {\n  r := e.trace\n}", a.src, b.src),
				fmt.Sprintf("func g(x) {\n  return x + %s\n}\ntry {\n  #\n  g(%s) #\n} except e {\n  r := e.trace\n}", a.src, b.src),
			} {
				c06Stmt(c, "", st, "statement "+strings.Fields(st)[0])
			}
		}
	}
}

func c06Accessors(c *Ctx) {
	for _, v := range c06U {
		for _, i := range c06U {
			if c.Stopped() {
				return
			}
			if !c.Mine() {
				continue
			}
			pre := "v := " + v.src + "\n"
			c06Stmt(c, pre, fmt.Sprintf("r := v[%s]", i.src), "index read")
			c06Stmt(c, pre, fmt.Sprintf("r := %s[%s]", v.src, i.src), "index read on literal")
			c06Stmt(c, pre, "r := v.k", "field read")
			c06Stmt(c, pre, fmt.Sprintf("r := v.k[%s]", i.src), "nested read")
			c06Stmt(c, pre, fmt.Sprintf("r := v[%s](1)", i.src), "call of element")
			c06Stmt(c, pre, fmt.Sprintf("r := {%s : 1}", i.src), "map literal key")
			c06Stmt(c, pre, fmt.Sprintf("r := {v : %s}", i.src), "map literal key")
			for _, w := range c06U {
				c06Stmt(c, pre, fmt.Sprintf("v[%s] := %s", i.src, w.src), "index write")
				if i.name == "1" || i.name == "a" {
					c06Stmt(c, pre, fmt.Sprintf("v.k := %s", w.src), "field write")
					c06Stmt(c, pre, fmt.Sprintf("v[%s][%s] := 1", i.src, w.src), "nested write")
				}
			}
		}
	}
	// boundary indices
	for _, idx := range []string{"-1", "-3", "-4", "-5", "3", "2.5", "1e300", "-1e300"} {
		pre := "a := [1, 2, 3]\n"
		for _, st := range []string{"r := a[" + idx + "]", "a[" + idx + "] := 9", "r := del(a, " + idx + ")", "r := add(a, 0, " + idx + ")", "r := del({1:2}, " + idx + ")"} {
			if c.Mine() {
				c06Stmt(c, pre, st, "boundary index")
			}
		}
	}
}

func c06Sinks(c *Ctx) {
	attrs := []string{"kindmatch", "scopematch", "statematch", "priority", "suppresses"}
	for _, at := range attrs {
		for _, v := range c06U {
			if !c.Mine() {
				continue
			}
			c06Stmt(c, "", fmt.Sprintf("sink s\n %s %s,\n {\n }\n", at, v.src), "sink attribute "+at)
			c06Stmt(c, "", fmt.Sprintf("sink s\n kindmatch [\"a\"],\n %s %s,\n {\n }\n", at, v.src), "sink attribute "+at)
			c06Stmt(c, "", fmt.Sprintf("sink s\n kindmatch [%s, %s],\n {\n }\n", v.src, v.src), "sink attribute kindmatch element")
			c06Stmt(c, "", fmt.Sprintf("sink s\n kindmatch [\"a\"],\n statematch {\"k\": %s, %s: 1},\n {\n }\n", v.src, v.src), "sink attribute statematch entry")
		}
	}
	// events with arbitrary state through the real processor (a panic on the
	// worker kills this process: attributed by the driver through the side file)
	for _, req := range c06U {
		for _, have := range c06U {
			if c.Stopped() {
				return
			}
			if !c.Mine() {
				continue
			}
			src := fmt.Sprintf("sink s1\n kindmatch [\"x\"],\n statematch {\"k\": %s},\n {\n  raise(\"Boom\")\n }\nsink s2\n kindmatch [\"x\"],\n {\n  ok := 1\n }\nres := addEventAndWait(\"e\", \"x\", {\"k\": %s, \"l\": [%s]})", req.src, have.src, have.src)
			c.Risky(src)
			out := evalECAL(src, evalOpts{budget: 20000})
			c.Nontrivial()
			if out.panicKey != "" {
				c.Viol("event processing: "+out.panicKey, fmt.Sprintf("%q panics: %s", src, out.panicMsg), src)
				continue
			}
			c.Outcome("event-processed")
		}
	}
	// an error inside a sink fails only that sink invocation
	for _, o := range c03Bin {
		for _, a := range c06U {
			if c.Stopped() || !c.Mine() {
				continue
			}
			src := fmt.Sprintf("sink s1\n kindmatch [\"x\"],\n {\n  r := event.state.v %s 1\n }\nsink s2\n kindmatch [\"x\"],\n priority 1,\n {\n  log(\"s2 ran\")\n }\nres := addEventAndWait(\"e\", \"x\", {\"v\": %s})\nres2 := addEventAndWait(\"e2\", \"x\", {\"v\": 1})", o, a.src)
			c.Risky(src)
			out := evalECAL(src, evalOpts{budget: 20000})
			c.Nontrivial()
			if out.panicKey != "" {
				c.Viol("sink body: "+out.panicKey, fmt.Sprintf("%q panics: %s", src, out.panicMsg), src)
				continue
			}
			if out.err != nil && out.stage == "eval" {
				c.Viol("sink error reaches the caller of addEventAndWait as an error", fmt.Sprintf("%q: %v", src, out.err), src)
				continue
			}
			c.Outcome("sink-failure-contained")
		}
	}
	// every kind of failure directly in a sink body (not inside a called function,
	// not inside try): the error must be collectable by addEventAndWait and usable
	for _, a := range c06U {
		for _, stmt := range []string{
			"x := event.state.v[5]", "x := event.state.v.z", "x := event.state.v.z.y", "event.state.v.z := 1", "event.state.v[7] := 1", "a := 1\n  a.b := 2", "x := nosuch.field", "nosuch.f := 1",
			"[p, q] := event.state.v", "x := event.state.v()", "for [p, q] in event.state.v {\n  }", "import \"nosuch\" as m", "return event.state.v", "x := new(event.state.v)", "x := -event.state.v",
		} {
			if c.Stopped() || !c.Mine() {
				continue
			}
			src := fmt.Sprintf("sink s1\n kindmatch [\"x\"],\n {\n  %s\n }\nres := addEventAndWait(\"e\", \"x\", {\"v\": %s})\nt := \"{{res}}\"\nn := len(res)\nfor r in res {\n  for [k, e] in r.errors {\n    u := [e.error, e.type, e.detail, e.data]\n  }\n}", stmt, a.src)
			c.Risky(src)
			out := evalECAL(src, evalOpts{budget: 20000})
			c.Nontrivial()
			if out.panicKey != "" {
				c.Viol("sink body failure: "+out.panicKey, fmt.Sprintf("%q panics: %s", src, out.panicMsg), src)
				continue
			}
			if out.err != nil && out.stage == "eval" {
				c.Viol("sink error reaches the caller of addEventAndWait as an error", fmt.Sprintf("%q: %v", src, out.err), src)
				continue
			}
			c.Outcome("sink-failure-collected")
		}
	}
}

func c06Accepted(c *Ctx, full bool) {
	red := c07Alphabet(true)
	all := c07Alphabet(false)
	run := func(alpha []string, n int) {
		idx := make([]int, n)
		var sb strings.Builder
		for {
			if c.Stopped() {
				return
			}
			if c.Mine() {
				sb.Reset()
				for k, i := range idx {
					if k > 0 {
						sb.WriteByte(' ')
					}
					sb.WriteString(alpha[i])
				}
				src := sb.String()
				if _, err := parser.Parse("v", src); err == nil {
					c.Risky(src)
					out := evalECAL(src, evalOpts{budget: 2000, setup: func(vs parser.Scope, erp *interpreter.ECALRuntimeProvider) {
						vs.SetValue("a", []interface{}{float64(1), map[interface{}]interface{}{"a": float64(1)}})
					}})
					c.Nontrivial()
					if out.panicKey != "" {
						c.Viol("accepted program "+out.stage+": "+out.panicKey, fmt.Sprintf("%q is accepted by the parser and panics during %s: %s", src, out.stage, out.panicMsg), src)
					} else {
						c.Outcome("accepted-program-ok")
					}
				} else {
					c.Begin(src)
					c.Outcome("rejected")
				}
			}
			k := n - 1
			for k >= 0 {
				idx[k]++
				if idx[k] < len(alpha) {
					break
				}
				idx[k] = 0
				k--
			}
			if k < 0 {
				return
			}
		}
	}
	for n := 1; n <= 3; n++ {
		run(all, n)
	}
	run(red, 4)
	if full {
		run(red, 5)
	}
}

var _ = util.ErrRuntimeError

func init() {
	replay := func(c *Ctx, in string) {
		out := evalECAL(in, evalOpts{budget: 20000})
		if out.panicKey != "" {
			c.Viol(out.panicKey, out.panicMsg, in)
		}
		fmt.Println("stage", out.stage, "error", out.err, "budget", out.budget)
	}
	register(&Part{Prop: "C06", Name: "operators", Quick: 4, Thor: 4, Replay: replay,
		Desc: "every binary operator x U^2 and every prefix operator x U over the 20-value universe (null, booleans, 0, +-1, fractions, 1e300, strings, lists, maps, a function), as literals and through variables; each failing case again inside try/except",
		Rule: "full product; every case is non-trivial (no panic is the oracle); an error must be catchable by try/except",
		Run:  func(c *Ctx) { c06Operators(c); c.Sample(`r := [1] == [1]`) }})
	register(&Part{Prop: "C06", Name: "builtins", Quick: 16, Thor: 32, Replay: replay,
		Desc: "every built-in function (except the argument vectors that are non-terminating by specification: real sleeps, valid trigger registrations) x every argument vector of length 0-3 (thorough 0-4) over U, literals and variables; loop / if / new / default parameter / destructuring / mutex / interpolation forms over U^2",
		Rule: "odometer over functions x vectors; every case non-trivial",
		Run: func(c *Ctx) {
			n := 3
			if c.Thorough() {
				n = 4
			}
			c06BuiltinCalls(c, n)
			c.Sample(`r := del([1], 5)`)
		}})
	register(&Part{Prop: "C06", Name: "accessors", Quick: 8, Thor: 8, Replay: replay,
		Desc: "v[i], v.k, v.k[i], v[i](1), map literal keys, v[i] := w, v.k := w, v[i][w] := 1 over U^2 / U^3; boundary indices (negative below -len, fractions, huge) for reads, writes, del and add",
		Rule: "full product; every case non-trivial",
		Run:  func(c *Ctx) { c06Accessors(c); c.Sample(`a := [1,2,3]; r := a[-5]`) }})
	register(&Part{Prop: "C06", Name: "sinks-and-events", Quick: 8, Thor: 8, Replay: replay,
		Desc: "every sink attribute x U (alone, next to a valid kindmatch, as list element / map entry); every statematch value x every event state value over U^2 through the real processor; a failing expression in one sink x U with a second sink and a second event that must still be processed",
		Rule: "full product; every case non-trivial; a panic on a worker goroutine kills the worker process and is attributed to the case through a side file",
		Run:  func(c *Ctx) { c06Sinks(c); c.Sample(`sink s kindmatch 1, { }`) }})
	register(&Part{Prop: "C06", Name: "self-referential-containers", Quick: 1, Thor: 1,
		Desc: "a list that contains itself (a := [1]; a[0] := a) is rendered (log, string interpolation, comparison, dumpenv): every rendering of an ECAL value recurses through Go's fmt, which does not detect cycles - recorded finding, the worker process dies with a stack overflow and the driver attributes it through the side file",
		Rule: "one case (the process dies on it)",
		Run: func(c *Ctx) {
			if !c.Mine() {
				return
			}
			src := "a := [1]\na[0] := a\nlog(a)"
			c.Risky(src)
			out := evalECAL(src, evalOpts{budget: 3000})
			c.Nontrivial()
			if out.panicKey != "" {
				c.Viol("self-referential container: "+out.panicKey, out.panicMsg, src)
				return
			}
			c.Outcome("rendered")
		}})
	register(&Part{Prop: "C06", Name: "string-literal-bodies", Quick: 4, Thor: 8, Replay: replay,
		Desc: "every quoted string literal body of <= 5 (thorough 6) pieces over {{{, }}, {, }, x, 1/0, space, a}: the hand-written scanner for {{...}} substitutions meets closing markers before opening ones, unbalanced and nested braces, empty and failing expressions; each body at top level, inside try/except (result assigned in both branches) and in a sink body next to a second sink that must still run",
		Rule: "odometer over pieces x 3 contexts; every case non-trivial (no panic is the oracle; a worker panic kills the worker process and is attributed through the side file)",
		Run: func(c *Ctx) {
			pieces := []string{"{{", "}}", "{", "}", "x", "1/0", " ", "a"}
			max := 5
			if c.Thorough() {
				max = 6
			}
			for n := 1; n <= max; n++ {
				idx := make([]int, n)
				for {
					if c.Stopped() {
						return
					}
					if c.Mine() {
						var sb strings.Builder
						for _, i := range idx {
							sb.WriteString(pieces[i])
						}
						body := sb.String()
						for ctx, src := range []string{
							fmt.Sprintf("x := 1\nr := \"%s\"", body),
							fmt.Sprintf("x := 1\ntry {\n  r := \"%s\"\n} except e {\n  r := e.detail\n}", body),
							fmt.Sprintf("sink s1\n kindmatch [\"k\"],\n {\n  x := event.state.v\n  r := \"%s\"\n }\nsink s2\n kindmatch [\"k\"],\n priority 1,\n {\n  log(\"s2 ran\")\n }\nres := addEventAndWait(\"e\", \"k\", {\"v\": 1})\nres2 := addEventAndWait(\"e2\", \"k\", {\"v\": 2})", body),
						} {
							c.Risky(src)
							out := evalECAL(src, evalOpts{budget: 20000})
							c.Nontrivial()
							if out.panicKey != "" {
								c.Viol("string literal: "+out.panicKey, fmt.Sprintf("%q panics during %s: %s", src, out.stage, out.panicMsg), src)
								continue
							}
							if ctx > 0 && out.err != nil && out.stage == "eval" {
								c.Viol("string literal: failing substitution is not contained", fmt.Sprintf("%q: the error of the substitution reaches the caller: %v", src, out.err), src)
								continue
							}
							c.Outcome([]string{"top-level-ok", "try-contained", "sink-contained"}[ctx])
						}
					}
					k := n - 1
					for k >= 0 {
						idx[k]++
						if idx[k] < len(pieces) {
							break
						}
						idx[k] = 0
						k--
					}
					if k < 0 {
						break
					}
				}
			}
			c.Sample(`r := "}} {{x}}"`)
		}})
	register(&Part{Prop: "C06", Name: "accepted-token-sequences", Quick: 16, Thor: 32, Replay: replay,
		Desc: "every token sequence of length <= 3 over the full lexer alphabet and of length 4 (thorough 5) over the 34-token subset that the parser accepts is validated and evaluated under a 2000-visit step budget",
		Rule: "odometer over token sequences (the C07 generator); non-trivial = accepted by the parser",
		Run:  func(c *Ctx) { c06Accepted(c, c.Thorough()); c.Sample("{ continue }") }})
}
