package main

import (
	"fmt"
	"sort"
	"strings"
)

// ---------------------------------------------------------------------------
// C02 (ECAL side) — the error report returned by the ECAL function
// addEventAndWait holds exactly one entry per failing event with exactly the
// sinks that failed on that event, with their own type / detail / data.

type c02Sink struct {
	name   string
	kind   string
	failOn map[string]int // event name -> data value raised (0: does not fail)
	adds   []string       // "name:kind" events added by this sink
	prio   int
}

func c02Program(sinks []c02Sink, root string) (string, map[string]map[string]int) {
	var b strings.Builder
	want := map[string]map[string]int{}
	for _, s := range sinks {
		fmt.Fprintf(&b, "sink %s\n  kindmatch [\"%s\"],\n  priority %d,\n  {\n", s.name, s.kind, s.prio)
		for _, a := range s.adds {
			p := strings.SplitN(a, ":", 2)
			fmt.Fprintf(&b, "    addEvent(\"%s\", \"%s\", {})\n", p[0], p[1])
		}
		var evs []string
		for ev := range s.failOn {
			evs = append(evs, ev)
		}
		sort.Strings(evs)
		for _, ev := range evs {
			fmt.Fprintf(&b, "    if event.name == \"%s\" {\n      raise(\"T-%s\", \"D-%s-%s\", %d)\n    }\n", ev, s.name, s.name, ev, s.failOn[ev])
			if want[ev] == nil {
				want[ev] = map[string]int{}
			}
			want[ev][s.name] = s.failOn[ev]
		}
		b.WriteString("  }\n")
	}
	fmt.Fprintf(&b, "res := addEventAndWait(\"%s\", \"%s\", {})\n", strings.SplitN(root, ":", 2)[0], strings.SplitN(root, ":", 2)[1])
	return b.String(), want
}

func init() {
	register(&Part{Prop: "C02", Name: "ecal-error-report", Quick: 1, Thor: 1,
		Desc: "ECAL programs whose cascade has 0, 1, 2 or 3 failing events (different sinks, the same sink failing on two events with different data, two sinks failing on one event with fail-on-first-error, failures at depth 2) evaluated on the real interpreter with 4 workers; the value returned by addEventAndWait is compared entry by entry",
		Rule: "hand-enumerated cascade shapes x failure placements; all non-trivial",
		Run: func(c *Ctx) {
			type shape struct {
				name  string
				sinks []c02Sink
			}
			mk := func(failA, failB, failRoot int, sameSink bool) []c02Sink {
				root := c02Sink{name: "root", kind: "r", adds: []string{"childA:ca", "childB:cb"}, failOn: map[string]int{}}
				if failRoot > 0 {
					root.failOn["start"] = failRoot
				}
				if sameSink {
					both := c02Sink{name: "both", kind: "c*", failOn: map[string]int{}}
					_ = both
				}
				a := c02Sink{name: "failA", kind: "ca", failOn: map[string]int{}}
				bb := c02Sink{name: "failB", kind: "cb", failOn: map[string]int{}}
				if failA > 0 {
					a.failOn["childA"] = failA
				}
				if failB > 0 {
					bb.failOn["childB"] = failB
				}
				return []c02Sink{root, a, bb}
			}
			var shapes []shape
			for fa := 0; fa <= 1; fa++ {
				for fb := 0; fb <= 1; fb++ {
					for fr := 0; fr <= 1; fr++ {
						shapes = append(shapes, shape{fmt.Sprintf("A%d-B%d-root%d", fa, fb, fr), mk(fa*11, fb*22, fr*33, false)})
					}
				}
			}
			// the same sink failing on two events with different data
			shapes = append(shapes, shape{"same-sink-two-events", []c02Sink{
				{name: "root", kind: "r", adds: []string{"childA:c", "childB:c"}, failOn: map[string]int{}},
				{name: "common", kind: "c", failOn: map[string]int{"childA": 1, "childB": 2}}}})
			// failure at depth 2 next to a failure at depth 1
			shapes = append(shapes, shape{"depth2", []c02Sink{
				{name: "root", kind: "r", adds: []string{"childA:ca"}, failOn: map[string]int{}},
				{name: "mid", kind: "ca", adds: []string{"leaf:cl"}, failOn: map[string]int{"childA": 5}},
				{name: "leafsink", kind: "cl", failOn: map[string]int{"leaf": 6}}}})
			// two sinks on one event: with fail-on-first-error (ECAL default) only the first is reported
			shapes = append(shapes, shape{"two-sinks-one-event", []c02Sink{
				{name: "root", kind: "r", adds: []string{"childA:ca"}, failOn: map[string]int{}},
				{name: "first", kind: "ca", prio: 0, failOn: map[string]int{"childA": 7}},
				{name: "second", kind: "ca", prio: 1, failOn: map[string]int{"childA": 8}},
				{name: "other", kind: "ca", prio: 2, failOn: map[string]int{}}}})
			for _, sh := range shapes {
				if !c.Mine() {
					continue
				}
				src, want := c02Program(sh.sinks, "start:r")
				if sh.name == "two-sinks-one-event" {
					delete(want["childA"], "second") // the trigger sequence ends at the first failing sink
				}
				c.Risky(src)
				out := evalECAL(src, evalOpts{budget: 50000})
				c.Nontrivial()
				if out.panicKey != "" || out.err != nil || out.stage != "eval" {
					c.Viol("ecal-report: program fails", fmt.Sprintf("shape %s: stage %s error %v panic %s\n%s", sh.name, out.stage, out.err, out.panicKey, src), src)
					continue
				}
				v, _, _ := out.vs.GetValue("res")
				got := map[string]map[string]int{}
				dup := false
				detailProb := ""
				if l, ok := v.([]interface{}); ok {
					for _, it := range l {
						m, _ := it.(map[interface{}]interface{})
						ev, _ := m["event"].(map[interface{}]interface{})
						name := fmt.Sprint(ev["name"])
						if _, seen := got[name]; seen {
							dup = true
						}
						got[name] = map[string]int{}
						errs, _ := m["errors"].(map[interface{}]interface{})
						for sk, e := range errs {
							em, _ := e.(map[interface{}]interface{})
							d, _ := em["data"].(float64)
							got[name][fmt.Sprint(sk)] = int(d)
							if fmt.Sprint(em["type"]) != "T-"+fmt.Sprint(sk) || fmt.Sprint(em["detail"]) != fmt.Sprintf("D-%v-%s", sk, name) {
								detailProb = fmt.Sprintf("entry for event %s, sink %v carries type %v detail %v", name, sk, em["type"], em["detail"])
							}
						}
					}
				}
				rend := func(m map[string]map[string]int) string {
					var p []string
					for ev, sm := range m {
						var q []string
						for s, d := range sm {
							q = append(q, fmt.Sprintf("%s=%d", s, d))
						}
						sort.Strings(q)
						if len(q) > 0 {
							p = append(p, ev+"{"+strings.Join(q, ",")+"}")
						}
					}
					sort.Strings(p)
					return strings.Join(p, " ")
				}
				switch {
				case dup:
					c.Viol("ecal-report: two entries for one event", fmt.Sprintf("shape %s: %s", sh.name, render(v)), src)
				case rend(got) != rend(want):
					c.Viol("ecal-report: errors attributed to the wrong event or sink", fmt.Sprintf("shape %s: report [%s], expected [%s]", sh.name, rend(got), rend(want)), src)
				case detailProb != "":
					c.Viol("ecal-report: wrong type or detail", fmt.Sprintf("shape %s: %s", sh.name, detailProb), src)
				default:
					c.Outcome("report-exact")
				}
			}
			c.Sample("root sink adds childA, childB; failA raises on childA, failB on childB; res := addEventAndWait(...)")
		}})
}
