package main

import (
	"archive/zip"
	"bytes"
	"fmt"
	"io/ioutil"
	"os"
	"path/filepath"
	"sort"
	"strings"

	"github.com/krotik/ecal/cli/tool"
)

// ---------------------------------------------------------------------------
// C20 — a packed executable always finds and runs its embedded program

type c20Tree struct {
	name  string
	files map[string]string // relative path -> content
	entry string
	code  int
}

func c20Trees(marker string) []c20Tree {
	return []c20Tree{
		{"single", map[string]string{"main.ecal": "41 + 1"}, "main.ecal", 42},
		{"nested-import", map[string]string{"main.ecal": "import \"lib/sub/l.ecal\" as l\nl.v + 1", "lib/sub/l.ecal": "v := 6", "lib/other.ecal": "w := 1"}, "main.ecal", 7},
		{"empty-and-binary", map[string]string{"main.ecal": "3", "empty.txt": "", "bin.dat": "\x00\x01#" + marker + "\xff####\n"}, "main.ecal", 3},
		// names that start with a dot, directories side by side, a file after a subdirectory in name order, a deep path
		{"dot-and-siblings", map[string]string{"main.ecal": "import \".lib/h.ecal\" as h\nimport \".settings.ecal\" as s\nimport \"lib/a.ecal\" as a\nimport \"util/b.ecal\" as b\nimport \"z.ecal\" as z\nimport \"lib/deep/er/d.ecal\" as d\nimport \"source.bin/l.ecal\" as l\nh.v + s.v + a.v + b.v + z.v + d.v + l.v",
			".lib/h.ecal": "v := 1", ".settings.ecal": "v := 2", "lib/a.ecal": "v := 4", "lib/deep/er/d.ecal": "v := 8", "lib/e.bin": "\x00", "util/b.ecal": "v := 16", "z.ecal": "v := 32",
			// entries named like the source and the target binary (which live elsewhere)
			"source.bin/l.ecal": "v := 64", "lib/target.bin": "not the target"}, "main.ecal", 127},
	}
}

// c20BigTree: main.ecal imports a library of exactly `size` bytes whose only
// definition is at its very end, so that any truncation or corruption of the
// packed copy changes the program's exit code.
func c20BigTree(pad string, size int) c20Tree {
	tail := "\nfunc answer() {\n  return 42\n}\n"
	n := size - len(tail) - 2
	if n < 0 {
		n = 0
	}
	body := make([]byte, n)
	x := uint32(12345)
	for i := range body {
		switch {
		case i%80 == 79:
			body[i] = '\n'
		case i%80 == 0:
			body[i] = '#'
		case pad == "noise":
			x = x*1664525 + 1013904223 // fixed LCG: incompressible, deterministic
			body[i] = 'A' + byte((x>>24)%58)
		default:
			body[i] = 'c'
		}
	}
	lib := "#" + string(body) + "\n" + tail
	return c20Tree{fmt.Sprintf("big-%s-%d", pad, size), map[string]string{"main.ecal": "import \"lib/lib.ecal\" as l\nl.answer()", "lib/lib.ecal": lib}, "main.ecal", 42}
}

var c20BigSizes = func() []int {
	var out []int
	for k := 9; k <= 17; k++ {
		out = append(out, 1<<k-1, 1<<k, 1<<k+1)
	}
	return append(out, 100, 40000, 100000, 200000)
}()

func c20TreeByName(marker, name string) (c20Tree, bool) {
	for _, t := range c20Trees(marker) {
		if t.name == name {
			return t, true
		}
	}
	var pad string
	var size int
	if n, _ := fmt.Sscanf(strings.Replace(name, "-", " ", -1), "big %s %d", &pad, &size); n == 2 {
		return c20BigTree(pad, size), true
	}
	return c20Tree{}, false
}

type c20Filler struct {
	name string
	gen  func(L int, marker string) []byte
}

var c20Fillers = []c20Filler{
	{"all-x", func(L int, m string) []byte { return bytes.Repeat([]byte("x"), L) }},
	{"all-hash", func(L int, m string) []byte { return bytes.Repeat([]byte("#"), L) }},
	{"hash-at-block-end", func(L int, m string) []byte {
		b := bytes.Repeat([]byte("x"), L)
		for i := 4095; i < L; i += 4096 {
			b[i] = '#'
		}
		return b
	}},
	{"partial-markers", func(L int, m string) []byte {
		b := bytes.Repeat([]byte("x"), L)
		// marker prefixes straddling the 4096 and 4124 geometry
		for _, period := range []int{4096, 4096 + len(m) + 11} {
			for base := period; base < L+period; base += period {
				for _, frag := range []string{m[:4], m[1 : len(m)-1], m[:len(m)-1]} {
					at := base - len(frag)/2
					if at >= 0 && at+len(frag) <= L {
						copy(b[at:], frag)
					}
				}
			}
		}
		return b
	}},
	{"newline-tail", func(L int, m string) []byte {
		b := bytes.Repeat([]byte("x"), L)
		if L > 0 {
			b[L-1] = '\n'
		}
		return b
	}},
}

type c20Env struct {
	dir    string
	marker string
}

func c20Setup() (*c20Env, error) {
	d, err := ioutil.TempDir("", "verif-c20-")
	if err != nil {
		return nil, err
	}
	return &c20Env{dir: d, marker: tool.VerifPackMarker()}, nil
}

func (en *c20Env) writeTree(t c20Tree) (string, error) {
	root := filepath.Join(en.dir, "proj-"+t.name)
	os.RemoveAll(root)
	for rel, content := range t.files {
		p := filepath.Join(root, rel)
		if err := os.MkdirAll(filepath.Dir(p), 0755); err != nil {
			return "", err
		}
		if err := ioutil.WriteFile(p, []byte(content), 0644); err != nil {
			return "", err
		}
	}
	return root, nil
}

func c20One(c *Ctx, en *c20Env, t c20Tree, root string, fl c20Filler, L int) {
	c20OneOpt(c, en, t, root, fl, L, false)
}

// c20History, when set, names the repack history the current pack belongs to
// (it is the replayable input of the case).
var c20History string

func c20RepackProjects(marker string) []c20Tree {
	return []c20Tree{c20Trees(marker)[0], c20BigTree("plain", 100), c20BigTree("noise", 40000), c20BigTree("noise", 200000), c20BigTree("plain", 200000)}
}

// c20RunHistory packs the projects h[0..] one after the other into the same target.
func c20RunHistory(c *Ctx, en *c20Env, h []int, L int) {
	projects := c20RepackProjects(en.marker)
	os.Remove(filepath.Join(en.dir, "target.bin"))
	defer func() { c20History = "" }()
	for i, pi := range h {
		t := projects[pi]
		root, err := en.writeTree(t)
		if err != nil {
			c.res.HarnessErr = err.Error()
			return
		}
		c20History = fmt.Sprintf("repack length=%d projects=%s", L, strings.Trim(strings.Replace(fmt.Sprint(h[:i+1]), " ", ",", -1), "[]"))
		c20OneOpt(c, en, t, root, c20Fillers[0], L, i > 0)
	}
}

// keepTarget: the target path still holds the result of the previous pack
// (re-packing a project into the same file).
func c20OneOpt(c *Ctx, en *c20Env, t c20Tree, root string, fl c20Filler, L int, keepTarget bool) {
	input := fmt.Sprintf("tree=%s filler=%s length=%d", t.name, fl.name, L)
	if c20History != "" {
		input = c20History
	}
	c.Begin(input)
	src := filepath.Join(en.dir, "source.bin")
	dst := filepath.Join(en.dir, "target.bin")
	filler := fl.gen(L, en.marker)
	if err := ioutil.WriteFile(src, filler, 0644); err != nil {
		c.res.HarnessErr = err.Error()
		return
	}
	if !keepTarget {
		os.Remove(dst)
	}
	if !keepTarget && c20History == "" {
		// the plain interpreter binary (no marker anywhere): the scan must end at
		// the end of the file and hand over to the normal command line
		exited := false
		var herr error
		restore := tool.VerifSetOS([]string{src}, func(code int) { exited = true }, ioutil.Discard, func(e error) { herr = e })
		ran := false
		k, m := Guard(func() { tool.RunPackedBinary() })
		restore()
		if k != "" {
			c.Viol("unpacked-run-"+k, fmt.Sprintf("%s: RunPackedBinary on the plain source binary panics: %s", input, m), input)
			return
		}
		if ran || exited || herr != nil {
			c.Viol("unpacked-binary-treated-as-packed", fmt.Sprintf("%s: the source binary holds no marker, RunPackedBinary returned %v (exit callback %v, error %v)", input, ran, exited, herr), input)
			return
		}
	}
	pk := tool.NewCLIPacker()
	pk.Dir, pk.SourceBinary, pk.TargetBinary = &root, &src, &dst
	pk.EntryFile = filepath.Join(root, t.entry)
	pk.LogOut = ioutil.Discard
	var perr error
	if k, m := Guard(func() { perr = pk.Pack() }); k != "" {
		c.Viol(k, "pack panicked: "+m, input)
		return
	}
	if perr != nil {
		c.Viol("pack-failed", input+": "+perr.Error(), input)
		return
	}
	// (1) the archive sits at L + len(marker) and holds every file byte-identical
	data, err := ioutil.ReadFile(dst)
	if err != nil {
		c.res.HarnessErr = err.Error()
		return
	}
	off := L + len(en.marker)
	if len(data) < off || !bytes.Equal(data[:L], filler) || string(data[L:off]) != en.marker {
		c.Viol("pack-layout", input+": packed file is not <binary><marker><archive>", input)
		return
	}
	zr, err := zip.NewReader(bytes.NewReader(data[off:]), int64(len(data)-off))
	if err != nil {
		c.Viol("pack-archive-unreadable", input+": "+err.Error(), input)
		return
	}
	got := map[string]string{}
	for _, f := range zr.File {
		rc, err := f.Open()
		if err != nil {
			c.Viol("pack-archive-unreadable", input+": "+err.Error(), input)
			return
		}
		b, _ := ioutil.ReadAll(rc)
		rc.Close()
		got[f.Name] = string(b)
	}
	var miss []string
	for rel, content := range t.files {
		if g, ok := got[rel]; !ok || g != content {
			miss = append(miss, rel)
		}
	}
	if got[".ecalsrc-entry"] != t.files[t.entry] {
		miss = append(miss, ".ecalsrc-entry")
	}
	if len(miss) > 0 {
		sort.Strings(miss)
		c.Viol("packed-file-missing-or-changed", fmt.Sprintf("%s: %v", input, miss), input)
		return
	}
	// (2) starting the packed binary locates the archive and runs the entry file
	exitCode := -1
	exited := false
	var herr error
	var stderr bytes.Buffer
	restore := tool.VerifSetOS([]string{dst}, func(code int) { exited = true; exitCode = code }, &stderr, func(e error) { herr = e })
	k, m := Guard(func() { tool.RunPackedBinary() })
	restore()
	c.Nontrivial()
	pos := (L) % (4096 + len(en.marker) + 11)
	switch {
	case k != "":
		c.Viol("run-"+k, fmt.Sprintf("%s (marker at offset %d of its scan unit): panic while locating the archive: %s", input, pos, m), input)
	case herr != nil:
		c.Viol("run-error", fmt.Sprintf("%s: %v", input, herr), input)
	case !exited:
		c.Viol("run-fell-through:"+fl.name, fmt.Sprintf("%s (marker at offset %d of its scan unit): the archive marker was not found, the binary falls through to the normal command line", input, pos), input)
	case exitCode != t.code || stderr.Len() > 0:
		c.Viol("run-wrong-result", fmt.Sprintf("%s: exit code %d, expected %d; stderr %q", input, exitCode, t.code, stderr.String()), input)
	default:
		c.Outcome("ran")
	}
}

func init() {
	register(&Part{Prop: "C20", Name: "repack-histories", Quick: 2, Thor: 2,
		Desc: "every history of 2 (thorough 3) packs into the SAME target path over 5 projects of very different packed size (entry file only; libraries of 100 / 40000 / 200000 bytes, compressible and incompressible) x 2 source-binary lengths: after every pack the target must be <binary><marker><archive> with every file byte-identical and must run the project packed last",
		Rule: "all ordered histories; every pack of a history is checked; non-trivial = the packed file was well-formed and was started",
		Run: func(c *Ctx) {
			en, err := c20Setup()
			if err != nil {
				c.res.HarnessErr = err.Error()
				return
			}
			defer os.RemoveAll(en.dir)
			nproj := len(c20RepackProjects(en.marker))
			depth := 2
			if c.Thorough() {
				depth = 3
			}
			var rec func(h []int)
			rec = func(h []int) {
				if len(h) == depth {
					if !c.Mine() {
						return
					}
					for _, L := range []int{100, 4109} {
						c20RunHistory(c, en, h, L)
					}
					return
				}
				for pi := 0; pi < nproj; pi++ {
					rec(append(append([]int{}, h...), pi))
				}
			}
			rec(nil)
			c.Sample("pack big-noise-200000, then pack single into the same target: the target runs 'single'")
		},
		Replay: func(c *Ctx, in string) { c20Replay(c, in) }})
	register(&Part{Prop: "C20", Name: "file-size-sweep", Quick: 4, Thor: 4,
		Desc: "projects whose imported library has exactly s bytes for every s in {2^k-1, 2^k, 2^k+1 : k = 9..17} + {100, 40000, 100000, 200000} (buffer, inflate-window and read-size boundaries) x {compressible, incompressible} content, with the library's only definition at its very end; packed with the real CLIPacker.Pack, unpacked byte-for-byte and started through RunPackedBinary",
		Rule: "every size of the list x 2 contents x 2 source-binary lengths; non-trivial = the packed file was well-formed and was started",
		Run: func(c *Ctx) {
			en, err := c20Setup()
			if err != nil {
				c.res.HarnessErr = err.Error()
				return
			}
			defer os.RemoveAll(en.dir)
			for _, pad := range []string{"plain", "noise"} {
				for _, size := range c20BigSizes {
					for _, L := range []int{100, 4109} {
						if !c.Mine() {
							continue
						}
						t := c20BigTree(pad, size)
						root, err := en.writeTree(t)
						if err != nil {
							c.res.HarnessErr = err.Error()
							return
						}
						c20One(c, en, t, root, c20Fillers[0], L)
					}
				}
			}
			c.Sample("tree=big-noise-32769 filler=all-x length=100")
		},
		Replay: func(c *Ctx, in string) { c20Replay(c, in) }})
	register(&Part{Prop: "C20", Name: "length-sweep", Quick: 16, Thor: 16,
		Desc: "source binaries of every length in [0, 2 scan periods] (thorough 3 periods) x 5 filler patterns (no #, all #, # at block ends, partial markers straddling block boundaries, trailing newline) x 3 project trees (single file; nested directories with an imported library; empty file and a binary file containing the marker), packed with the real CLIPacker.Pack and started in-process through RunPackedBinary",
		Rule: "every length of the sweep is enumerated (period = 4096 + len(marker) + 11 bytes of the scanner's buffer geometry); non-trivial = the packed file was well-formed and was started",
		Run: func(c *Ctx) {
			en, err := c20Setup()
			if err != nil {
				c.res.HarnessErr = err.Error()
				return
			}
			defer os.RemoveAll(en.dir)
			period := 4096 + len(en.marker) + 11
			periods := 2
			if c.Thorough() {
				periods = 3
			}
			trees := c20Trees(en.marker)
			for ti, t := range trees {
				root, err := en.writeTree(t)
				if err != nil {
					c.res.HarnessErr = err.Error()
					return
				}
				for _, fl := range c20Fillers {
					if ti > 0 && !c.Thorough() && fl.name != "all-x" && fl.name != "partial-markers" {
						continue
					}
					for L := 0; L <= periods*period; L++ {
						if !c.Mine() {
							if c.Stopped() {
								return
							}
							continue
						}
						c20One(c, en, t, root, fl, L)
					}
				}
			}
			c.Extra("scan_period_bytes", period)
			c.Sample("tree=nested-import filler=all-x length=4109")
		},
		Replay: func(c *Ctx, in string) { c20Replay(c, in) }})
}

func c20Replay(c *Ctx, in string) {
	en, err := c20Setup()
	if err != nil {
		return
	}
	defer os.RemoveAll(en.dir)
	if strings.HasPrefix(in, "repack ") {
		var hl int
		var ps string
		fmt.Sscanf(in, "repack length=%d projects=%s", &hl, &ps)
		var h []int
		for _, f := range strings.Split(ps, ",") {
			var x int
			fmt.Sscan(f, &x)
			h = append(h, x)
		}
		c20RunHistory(c, en, h, hl)
		return
	}
	var tn, fn string
	var L int
	fmt.Sscanf(strings.NewReplacer("tree=", "", "filler=", "", "length=", "").Replace(in), "%s %s %d", &tn, &fn, &L)
	if t, ok := c20TreeByName(en.marker, tn); ok {
		for _, fl := range c20Fillers {
			if fl.name == fn {
				root, _ := en.writeTree(t)
				c20One(c, en, t, root, fl, L)
			}
		}
	}
}
