package main

import (
	"fmt"
	"reflect"
	"regexp"
	"sort"
	"strings"
	"sync"
	"unsafe"

	"github.com/krotik/ecal/engine"
	"github.com/krotik/ecal/interpreter"
	"github.com/krotik/ecal/parser"
	"github.com/krotik/ecal/scope"
)

// ---------------------------------------------------------------------------
// C11 / C13 (sequential complement) — evaluation must not write to the shared
// runtime tree. A sink's statements (and a function's body) are ONE tree of
// runtime components that every invocation on every worker evaluates without a
// lock; the scheduler of Engine A runs code between two synchronisation
// operations atomically and therefore cannot interleave unsynchronised writes
// to struct fields. This part decides the precondition instead: a reflective
// snapshot of the whole AST + runtime-component tree (unexported fields and
// spare slice capacity included) must be identical before and after an
// evaluation. Deterministic, no schedules involved.

func treeSnapshot(n *parser.ASTNode) string {
	var b strings.Builder
	seenPtr := map[uintptr]bool{}
	var val func(rv reflect.Value, depth int)
	val = func(rv reflect.Value, depth int) {
		if depth > 12 {
			b.WriteString("…;")
			return
		}
		if rv.Kind() != reflect.Invalid && !rv.CanInterface() && rv.CanAddr() {
			rv = reflect.NewAt(rv.Type(), unsafe.Pointer(rv.UnsafeAddr())).Elem()
		}
		switch rv.Kind() {
		case reflect.Invalid:
			b.WriteString("nil;")
		case reflect.Ptr:
			if rv.IsNil() {
				b.WriteString("nil;")
				return
			}
			t := rv.Type().String()
			// components of the tree are rendered by the tree walk; shared
			// infrastructure (provider, processor, loggers) is outside the tree.
			// Everything else a runtime component points to that is declared in
			// the interpreter or util package (a preallocated signal or error
			// object, an embedded helper runtime) belongs to the component.
			pkg := rv.Type().Elem().PkgPath()
			own := (strings.HasSuffix(pkg, "ecal/interpreter") || strings.HasSuffix(pkg, "ecal/util")) &&
				!strings.Contains(t, "ECALRuntimeProvider") && !strings.Contains(t, "Logger") && !strings.Contains(t, "ecalDebugger")
			if depth == 0 || own {
				if seenPtr[rv.Pointer()] {
					fmt.Fprintf(&b, "%s@seen;", t)
					return
				}
				seenPtr[rv.Pointer()] = true
				val(rv.Elem(), depth+1)
				return
			}
			fmt.Fprintf(&b, "%s@;", t)
		case reflect.Interface:
			if rv.IsNil() {
				b.WriteString("nil;")
				return
			}
			fmt.Fprintf(&b, "%s@;", rv.Elem().Type())
		case reflect.Struct:
			b.WriteString(rv.Type().String() + "{")
			if !rv.CanAddr() {
				cp := reflect.New(rv.Type()).Elem()
				cp.Set(rv)
				rv = cp
			}
			for i := 0; i < rv.NumField(); i++ {
				b.WriteString(rv.Type().Field(i).Name + "=")
				val(rv.Field(i), depth+1)
			}
			b.WriteString("}")
		case reflect.Slice:
			if rv.IsNil() {
				b.WriteString("nilslice;")
				return
			}
			fmt.Fprintf(&b, "[len%d cap%d:", rv.Len(), rv.Cap())
			full := rv.Slice(0, rv.Cap())
			for i := 0; i < full.Len(); i++ {
				val(full.Index(i), depth+1)
			}
			b.WriteString("]")
		case reflect.Map:
			var ks []string
			km := map[string]reflect.Value{}
			for _, k := range rv.MapKeys() {
				s := fmt.Sprintf("%v", k)
				ks = append(ks, s)
				km[s] = k
			}
			sort.Strings(ks)
			b.WriteString("map{")
			for _, k := range ks {
				b.WriteString(k + ":")
				val(rv.MapIndex(km[k]), depth+1)
			}
			b.WriteString("}")
		case reflect.Func:
			b.WriteString("func;")
		default:
			fmt.Fprintf(&b, "%v;", rv)
		}
	}
	var walk func(n *parser.ASTNode)
	walk = func(n *parser.ASTNode) {
		if n == nil {
			b.WriteString("<nil>")
			return
		}
		fmt.Fprintf(&b, "(%s", n.Name)
		if n.Token != nil {
			fmt.Fprintf(&b, " tok=%v|%q|%v|%v|%d|%d|%d", n.Token.ID, n.Token.Val, n.Token.Identifier, n.Token.AllowEscapes, n.Token.Pos, n.Token.Lline, n.Token.Lpos)
		}
		fmt.Fprintf(&b, " meta=%d/%d", len(n.Meta), cap(n.Meta))
		if n.Runtime != nil {
			b.WriteString(" rt=")
			val(reflect.ValueOf(n.Runtime), 0)
		}
		fmt.Fprintf(&b, " children=%d/%d", len(n.Children), cap(n.Children))
		full := n.Children[:cap(n.Children)]
		for _, c := range full {
			walk(c)
		}
		b.WriteString(")")
	}
	walk(n)
	return b.String()
}

var c11KindRe = regexp.MustCompile(`interpreter\.(\w+Runtime)\{`)

var c11Corpus = []string{
	"a := 1 + 2 * 3\nb := a > 2 and not false",
	"x := 0\nfor i in range(1, 3) {\n  if i == 2 {\n    continue\n  }\n  x := x + i\n}",
	"x := 0\nfor x < 3 {\n  x := x + 1\n}",
	"for [k, v] in [[1, 2], [3, 4]] {\n  log(k, v)\n}",
	"func f(a, b=1) {\n  return a + b\n}\nx := f(1)\ny := f(1, 2)",
	"try {\n  raise(\"E\", \"d\", [1])\n} except \"E\" as e {\n  log(e.type)\n} otherwise {\n  x := 1\n} finally {\n  y := 2\n}",
	"mutex m {\n  a := 1\n}",
	"o := {\"a\": [1, 2, {\"b\": null}], \"f\": func () {\n  return this.a\n}}\nr := o.a[2].b\nn := new(o)\nq := n.f()",
	"s := \"a {{1 + 2}} b\"\nt := r\"raw\"",
	"x := \"abc\" like \"a.c\"\ny := \"abc\" hasprefix \"a\"\nz := 1 in [1, 2]\nw := 3 notin [1]",
	"l := [1, 2, 3]\nl := add(l, 4)\nl := del(l, 0)\nn := len(l)\nc := concat(l, [5])",
	"let a := 1\nlet [b, c] := [1, 2]\n[d, e] := [3, 4]",
	"x := -1\ny := +2\nz := 5 % 2 // 1",
	"if 1 > 2 {\n  a := 1\n} elif 2 > 1 {\n  a := 2\n} else {\n  a := 3\n}",
}

func init() {
	register(&Part{Prop: "C11", Name: "evaluation-leaves-runtime-tree-untouched", Quick: 1, Thor: 1,
		Desc: "for a 14-program corpus covering every statement and operator kind (also wrapped in a function that is called twice and in a sink that is triggered twice): a reflective snapshot of the whole AST + runtime-component tree, unexported fields and spare slice capacity included, taken before and after each evaluation must be identical (the tree of a sink / function body is shared by all concurrent invocations)",
		Rule: "corpus x {top level, function called twice, sink triggered twice}; every case non-trivial",
		Run: func(c *Ctx) {
			for _, prog := range c11Corpus {
				ind := "  " + strings.Replace(prog, "\n", "\n  ", -1)
				for _, form := range []string{prog, "func w() {\n" + ind + "\n}\nw()\nw()", "sink s\n  kindmatch [\"k\"],\n  {\n" + ind + "\n  }\naddEventAndWait(\"e1\", \"k\", {})\naddEventAndWait(\"e2\", \"k\", {})"} {
					if !c.Mine() {
						continue
					}
					c.Begin(form)
					erp := interpreter.NewECALRuntimeProvider("v", nil, nil)
					erp.Cron.Stop()
					ast, err := parser.ParseWithRuntime("v", form, erp)
					if err == nil {
						err = ast.Runtime.Validate()
					}
					if err != nil {
						c.Viol("purity: corpus program rejected", fmt.Sprintf("%v\n%s", err, form), form)
						continue
					}
					c.Nontrivial()
					before := treeSnapshot(ast)
					pk, pm := Guard(func() {
						ast.Runtime.Eval(scope.NewScope(scope.GlobalScope), make(map[string]interface{}), erp.NewThreadID())
						ast.Runtime.Eval(scope.NewScope(scope.GlobalScope), make(map[string]interface{}), erp.NewThreadID())
					})
					erp.Processor.Finish()
					if pk != "" {
						c.Viol("purity: "+pk, pm, form)
						continue
					}
					after := treeSnapshot(ast)
					if before != after {
						// locate the first difference
						i := 0
						for i < len(before) && i < len(after) && before[i] == after[i] {
							i++
						}
						lo := i - 120
						if lo < 0 {
							lo = 0
						}
						hi := i + 80
						ctx := before[lo:minInt(hi, len(before))]
						ctx2 := after[lo:minInt(hi, len(after))]
						kind := "?"
						if m := c11KindRe.FindAllStringSubmatch(before[:minInt(i, len(before))], -1); len(m) > 0 {
							for j := len(m) - 1; j >= 0; j-- {
								if kind = m[j][1]; kind != "baseRuntime" && kind != "operatorRuntime" {
									break
								}
							}
						}
						c.Viol("evaluation writes to the shared runtime tree ("+kind+")", fmt.Sprintf("evaluating the program changed its own AST / runtime components (shared by concurrent invocations of a sink or function):\nbefore: …%s…\nafter:  …%s…\n%s", ctx, ctx2, form), form)
						continue
					}
					c.Outcome("tree-unchanged")
				}
			}
			c.Sample("sink s kindmatch [\"k\"], { for i in range(1, 3) { ... } } triggered twice; snapshot(tree) before == after")
		}})
}

func minInt(a, b int) int {
	if a < b {
		return a
	}
	return b
}

// ---------------------------------------------------------------------------
// The rule index is the other structure every worker reads without a lock
// (RuleIndex.Match for each event it takes). Sinks are rules without state
// patterns: k sinks on one wildcard kind sit in one leaf slice whose capacity
// may exceed its length, next to sinks on exact sibling kinds. Matching must
// leave the index (spare capacity included) untouched and return exactly the
// matching sinks, otherwise two workers matching different kinds at the same
// time run each other's sinks.

func init() {
	register(&Part{Prop: "C11", Name: "matching-leaves-rule-index-untouched", Quick: 1, Thor: 1,
		Desc: "sink-like rule sets: k = 0..9 sinks on the wildcard kind test.* (one leaf slice, spare capacity for k = 3, 5-7, 9) x subsets of exact-kind sinks {test.a, test.b, test.a (second), *.a, test} x events test.a / test.b / test.c / other.a matched twice each in every order of two: the result must be exactly the matching sinks and a reflective snapshot of the whole index (unexported fields, spare slice capacity) must not change",
		Rule: "k x 32 subsets x 12 ordered event pairs; every case non-trivial",
		Run: func(c *Ctx) {
			exact := [][]string{{"test", "a"}, {"test", "b"}, {"test", "a"}, {"*", "a"}, {"test"}}
			events := [][]string{{"test", "a"}, {"test", "b"}, {"test", "c"}, {"other", "a"}}
			for k := 0; k <= 9; k++ {
				for mask := 0; mask < 1<<uint(len(exact)); mask++ {
					if !c.Mine() {
						continue
					}
					idx := engine.NewRuleIndex()
					var rules []*engine.Rule
					add := func(name string, kind []string) {
						r := &engine.Rule{Name: name, KindMatch: []string{strings.Join(kind, ".")}, ScopeMatch: []string{}}
						rules = append(rules, r)
						idx.AddRule(r)
					}
					for i := 0; i < k; i++ {
						add(fmt.Sprintf("w%d", i), []string{"test", "*"})
					}
					for i, kd := range exact {
						if mask&(1<<uint(i)) != 0 {
							add(fmt.Sprintf("x%d", i), kd)
						}
					}
					desc := fmt.Sprintf("%d sinks on test.* + exact sinks mask %05b", k, mask)
					before := snapshot(idx)
					for _, e1 := range events {
						for _, e2 := range events {
							input := fmt.Sprintf("%s; events %s then %s", desc, strings.Join(e1, "."), strings.Join(e2, "."))
							c.Begin(input)
							c.Nontrivial()
							bad := false
							for _, kind := range [][]string{e1, e2, e1} {
								ev := engine.NewEvent("e", kind, nil)
								var want []string
								for _, r := range rules {
									if refRuleMatches(r, kind, nil) {
										want = append(want, r.Name)
									}
								}
								sort.Strings(want)
								var got []string
								if pk, pm := Guard(func() {
									for _, r := range idx.Match(ev) {
										got = append(got, r.Name)
									}
								}); pk != "" {
									c.Viol("match-"+pk, input+": "+pm, input)
									bad = true
									break
								}
								sort.Strings(got)
								if fmt.Sprint(got) != fmt.Sprint(want) {
									c.Viol("wrong sinks matched", fmt.Sprintf("%s: event %s matched sinks %v, expected %v", input, strings.Join(kind, "."), got, want), input)
									bad = true
									break
								}
							}
							if after := snapshot(idx); after != before {
								c.Viol("matching writes to the shared rule index", fmt.Sprintf("%s: Match changed the rule index (including spare slice capacity); workers match events concurrently without a lock, so one event can run another event's sinks", input), input)
								before = after
								bad = true
							}
							if !bad {
								c.Outcome("index-unchanged")
							}
						}
					}
				}
			}
			c.Sample("3 sinks on test.* + sinks on test.a and test.b; match test.a, test.b, test.a: same sinks, index snapshot unchanged")
		}})
}

// ---------------------------------------------------------------------------
// Differential isolation oracle (sequential): what an invocation observes and
// the error it records must not depend on whether the same sink (and the
// functions it calls) ran before for another event. Event 2 is processed once
// on a fresh interpreter and once after event 1; the observations made for
// event 2 and its error report must be identical. None of the bodies writes a
// global variable, so every difference is state that leaked from one
// invocation into the next: a memoised value, a default parameter evaluated
// once, a cache keyed too coarsely, a scratch buffer on a shared node.

var c11IsoDefs = `func withDefaults(id, rec={}, l=[], n=0) {
  let seen := [rec.id, len(l), n]
  rec.id := id
  l := add(l, id)
  n := n + id
  return [seen, rec.id, len(l), n]
}
func mkCounter() {
  let c := 0
  return func () {
    c := c + 1
    return c
  }
}
func fail(id) {
  raise("E{{id}}", "detail {{id}}", [id])
}
Template := {
  "id": 0,
  "init": func (i) {
    this.id := i
  },
  "get": func () {
    return this.id
  }
}
`

var c11IsoBodies = []string{
	"obs(withDefaults(event.state.id))",
	"obs(withDefaults(event.state.id, {\"id\": -1}))",
	"let l := []\n    l := add(l, event.state.id)\n    obs(l)",
	"let c := mkCounter()\n    obs(c(), c())",
	"let o := new(Template, event.state.id)\n    obs(o.get())",
	"obs(\"id {{event.state.id}} {{event.state.id + 1}} {{event.state.id}}\")",
	"try {\n      fail(event.state.id)\n    } except e {\n      obs(e.type, e.detail, e.data)\n    }",
	"let s := 0\n    for i in range(1, event.state.id) {\n      s := s + i\n    }\n    obs(s)",
	"obs(\"a{{event.state.id}}\" like \"a{{event.state.id}}$\", \"a1\" like \"a{{event.state.id}}$\")",
	"mutex m {\n      obs(event.state.id)\n    }",
	"obs(event.name, event.kind, event.state)",
	"if event.state.id == 2 {\n      fail(event.state.id)\n    }\n    obs(\"not failed\")",
	"fail(event.state.id)",
	"let m := {\"k\": [event.state.id]}\n    m.k[0] := m.k[0] * 10\n    obs(m)",
	"obs(len(concat([event.state.id], [1, 2])), type(event.state.id))",
}

func c11IsoRun(body string, withFirst bool) (obs []string, report string, fail string) {
	var src strings.Builder
	src.WriteString(c11IsoDefs)
	fmt.Fprintf(&src, "sink s\n  kindmatch [\"k\"],\n  {\n    %s\n  }\n", body)
	if withFirst {
		src.WriteString("r1 := addEventAndWait(\"ev1\", \"k\", {\"id\": 1})\n")
	}
	src.WriteString("r2 := addEventAndWait(\"ev2\", \"k\", {\"id\": 2})\n")
	var mu sync.Mutex
	var all []string
	var erpRef *interpreter.ECALRuntimeProvider
	out := evalECAL(src.String(), evalOpts{budget: 200000, setup: func(vs parser.Scope, erp *interpreter.ECALRuntimeProvider) {
		erpRef = erp
		vs.SetValue("obs", &hfunc{func(args []interface{}) (interface{}, error) {
			mu.Lock()
			all = append(all, fmt.Sprint(args...))
			mu.Unlock()
			return nil, nil
		}})
	}})
	if erpRef != nil {
		erpRef.Processor.Finish()
	}
	if out.panicKey != "" || out.err != nil {
		return nil, "", fmt.Sprintf("%v %v", out.panicKey, out.err)
	}
	r2, _, _ := out.vs.GetValue("r2")
	n := 0
	if withFirst {
		// the first invocation's observations come first (addEventAndWait waited for it)
		r1obs, _ := c11IsoCount(body)
		n = r1obs
	}
	mu.Lock()
	defer mu.Unlock()
	if n > len(all) {
		n = len(all)
	}
	return append([]string{}, all[n:]...), renderValue(r2), ""
}

// c11IsoCount: number of observations the first event alone produces.
var c11IsoFirstCache = map[string]int{}

func c11IsoCount(body string) (int, string) {
	if n, ok := c11IsoFirstCache[body]; ok {
		return n, ""
	}
	var src strings.Builder
	src.WriteString(c11IsoDefs)
	fmt.Fprintf(&src, "sink s\n  kindmatch [\"k\"],\n  {\n    %s\n  }\nr1 := addEventAndWait(\"ev1\", \"k\", {\"id\": 1})\n", body)
	n := 0
	var mu sync.Mutex
	var erpRef *interpreter.ECALRuntimeProvider
	out := evalECAL(src.String(), evalOpts{budget: 200000, setup: func(vs parser.Scope, erp *interpreter.ECALRuntimeProvider) {
		erpRef = erp
		vs.SetValue("obs", &hfunc{func(args []interface{}) (interface{}, error) {
			mu.Lock()
			n++
			mu.Unlock()
			return nil, nil
		}})
	}})
	if erpRef != nil {
		erpRef.Processor.Finish()
	}
	if out.panicKey != "" || out.err != nil {
		return 0, fmt.Sprintf("%v %v", out.panicKey, out.err)
	}
	c11IsoFirstCache[body] = n
	return n, ""
}

func renderValue(v interface{}) string {
	switch x := v.(type) {
	case map[interface{}]interface{}:
		var ks []string
		for k := range x {
			ks = append(ks, fmt.Sprint(k))
		}
		sort.Strings(ks)
		var b strings.Builder
		b.WriteString("{")
		for _, k := range ks {
			for kk, vv := range x {
				if fmt.Sprint(kk) == k {
					b.WriteString(k + ":" + renderValue(vv) + " ")
				}
			}
		}
		b.WriteString("}")
		return b.String()
	case []interface{}:
		var b strings.Builder
		b.WriteString("[")
		for _, e := range x {
			b.WriteString(renderValue(e) + " ")
		}
		b.WriteString("]")
		return b.String()
	}
	return fmt.Sprint(v)
}

func init() {
	register(&Part{Prop: "C11", Name: "second-invocation-equals-first", Quick: 1, Thor: 1,
		Desc: "15 sink bodies that write no global variable (functions with container / number defaults, closures created per invocation, object instantiation, interpolation of event data, raise with data and try/except, loops, like with a pattern built from event data, mutex, container literals): event 2 processed on a fresh interpreter and processed after event 1 must give the same observations and the same error report (type, detail, data) - everything else is state leaking from one invocation into the next",
		Rule: "bodies x {alone, after another invocation}; every case non-trivial",
		Run: func(c *Ctx) {
			for _, body := range c11IsoBodies {
				if !c.Mine() {
					continue
				}
				c.Begin(body)
				obsA, repA, f1 := c11IsoRun(body, false)
				obsB, repB, f2 := c11IsoRun(body, true)
				if f1 != "" || f2 != "" {
					c.Viol("isolation corpus program fails", fmt.Sprintf("%s %s\n%s", f1, f2, body), body)
					continue
				}
				c.Nontrivial()
				if fmt.Sprint(obsA) != fmt.Sprint(obsB) {
					c.Viol("invocation sees state of an earlier invocation", fmt.Sprintf("sink body:\n    %s\nevent 2 alone observes %v, event 2 after event 1 observes %v", body, obsA, obsB), body)
					continue
				}
				if repA != repB {
					c.Viol("error report depends on an earlier invocation", fmt.Sprintf("sink body:\n    %s\nevent 2 alone: %s\nevent 2 after event 1: %s", body, repA, repB), body)
					continue
				}
				c.Outcome("same-observations")
			}
			c.Sample("sink body obs(withDefaults(event.state.id)) with func withDefaults(id, rec={}, l=[], n=0): same observations for event 2 alone and after event 1")
		}})
}
