package main

import (
	"fmt"
	"strings"

	"github.com/krotik/ecal/interpreter"
	"github.com/krotik/ecal/parser"
	"github.com/krotik/ecal/util"
)

// ---------------------------------------------------------------------------
// C04 — control flow and try/except/otherwise/finally follow the reference semantics

type sig struct {
	kind  string // "", break, continue, return, error
	etype string
	val   interface{}
}

type cexc struct {
	types []string
	as    bool
	block []*cst
}

type cst struct {
	kind     string
	k        int    // marker
	etype    string // raise type
	val      int    // return value (0: no value)
	body     []*cst // try body / loop body / function body / if branch
	excepts  []cexc
	other    []*cst
	hasOther bool
	fin      []*cst
	hasFin   bool
	// loops
	a, b, s int // range (s == 0: no step given)
	list    []int
	when    int  // loop variable value at which the conditional exit statement runs (0: always)
	exit    *cst // statement executed when x == when
	// if
	conds    []bool
	gkinds   []int // per guard: 0 = boolean variable (conds), 2 = raise("A"), 3 = runtime error
	branches [][]*cst
	els      []*cst
	hasEls   bool
}

type cref struct {
	trace  []string
	unspec string
	// a try block left by return/break/continue and an otherwise clause: the
	// statement leaves open whether otherwise runs ("only when the try block
	// raised nothing"), but not that the pending return/break/continue survives.
	// Both readings are computed (otherOnCtl) and either is accepted.
	otherOnCtl bool
	otherCtl   bool
}

func (r *cref) exec(list []*cst) sig {
	for _, s := range list {
		if g := r.one(s); g.kind != "" {
			return g
		}
	}
	return sig{}
}

func (r *cref) one(s *cst) sig {
	switch s.kind {
	case "mark":
		r.trace = append(r.trace, fmt.Sprint(s.k))
	case "raise":
		return sig{kind: "error", etype: s.etype}
	case "rterr":
		return sig{kind: "error", etype: "Operand is not a number"}
	case "return":
		if s.val == 0 {
			return sig{kind: "return", val: nil}
		}
		return sig{kind: "return", val: float64(s.val)}
	case "break", "continue":
		return sig{kind: s.kind}
	case "try":
		g := r.exec(s.body)
		switch {
		case g.kind == "error":
			handled := false
			for _, e := range s.excepts {
				match := len(e.types) == 0
				for _, t := range e.types {
					if t == g.etype {
						match = true
					}
				}
				if match {
					handled = true
					if e.as {
						r.trace = append(r.trace, "type="+g.etype)
					}
					g = r.exec(e.block)
					break
				}
			}
			_ = handled
		case g.kind == "":
			if s.hasOther {
				g = r.exec(s.other)
			}
		default:
			if s.hasOther {
				r.otherCtl = true
				if r.otherOnCtl {
					if g2 := r.exec(s.other); g2.kind != "" {
						g = g2
					}
				}
			}
		}
		if s.hasFin {
			if f := r.exec(s.fin); f.kind != "" {
				r.unspec = "exit from inside finally"
			}
		}
		return g
	case "forrange":
		var vals []int
		step := s.s
		if step == 0 {
			step = 1
			if s.a > s.b {
				r.unspec = "range without step and start > end"
			}
		}
		if step > 0 && s.a <= s.b {
			for x := s.a; x <= s.b; x += step {
				vals = append(vals, x)
			}
		} else if step < 0 && s.a >= s.b {
			for x := s.a; x >= s.b; x += step {
				vals = append(vals, x)
			}
		} else {
			r.unspec = "range step contradicts start/end"
		}
		return r.loop(s, vals)
	case "forlist":
		return r.loop(s, s.list)
	case "forcond":
		// i := 0; for i < 3 { i := i + 1; body }
		return r.loop(s, []int{1, 2, 3})
	case "formap":
		// for [k, x] in {"b": 2, "a": 1, "c": 3}: keys in string order a, b, c -> values 1, 2, 3
		return r.loop(s, []int{1, 2, 3})
	case "forpairs":
		// for [p, x] in [[10, 1], [20, 2]]
		return r.loop(s, []int{1, 2})
	case "formap1":
		// for e in {"b": 2, "a": 1, "c": 3}: e is the [key, value] pair; the pair of
		// the previous iteration is kept and must still be that pair
		return r.loop(s, []int{1, 2, 3})
	case "call":
		g := r.exec(s.body)
		switch g.kind {
		case "return":
			r.trace = append(r.trace, "ret="+render(g.val))
			return sig{}
		case "":
			r.trace = append(r.trace, "ret=null")
			return sig{}
		case "break", "continue":
			r.unspec = "break/continue leaving a function"
			return sig{}
		}
		return g
	case "if":
		for i, c := range s.conds {
			if s.gkinds != nil {
				switch s.gkinds[i] {
				case 2:
					return sig{kind: "error", etype: "A"}
				case 3:
					return sig{kind: "error", etype: "Operand is not a number"}
				}
			}
			if c {
				return r.exec(s.branches[i])
			}
		}
		if s.hasEls {
			return r.exec(s.els)
		}
	}
	return sig{}
}

func (r *cref) loop(s *cst, vals []int) sig {
	for i, x := range vals {
		r.trace = append(r.trace, fmt.Sprintf("x=%d", x))
		if s.kind == "formap1" && i > 0 {
			r.trace = append(r.trace, fmt.Sprintf("prev=%s%d", string(rune('a'+vals[i-1]-1)), vals[i-1]))
		}
		g := sig{}
		if s.exit != nil && (s.when == 0 || s.when == x) {
			g = r.one(s.exit)
		}
		if g.kind == "" {
			g = r.exec(s.body)
		}
		switch g.kind {
		case "break":
			return sig{}
		case "continue", "":
			continue
		default:
			return g
		}
	}
	return sig{}
}

// rendering -----------------------------------------------------------------

var c04FuncCtr int

func c04Render(list []*cst, ind string, b *strings.Builder, loopVar string) {
	for _, s := range list {
		switch s.kind {
		case "mark":
			fmt.Fprintf(b, "%smark(%d)\n", ind, s.k)
		case "raise":
			fmt.Fprintf(b, "%sraise(\"%s\", \"d\", 1)\n", ind, s.etype)
		case "rterr":
			fmt.Fprintf(b, "%szz := 1 + \"a\"\n", ind)
		case "return":
			if s.val == 0 {
				fmt.Fprintf(b, "%sreturn\n", ind)
			} else {
				fmt.Fprintf(b, "%sreturn %d\n", ind, s.val)
			}
		case "break", "continue":
			fmt.Fprintf(b, "%s%s\n", ind, s.kind)
		case "try":
			fmt.Fprintf(b, "%stry {\n", ind)
			c04Render(s.body, ind+"  ", b, loopVar)
			for _, e := range s.excepts {
				fmt.Fprintf(b, "%s} except", ind)
				if len(e.types) == 0 && e.as {
					b.WriteString(" e {\n")
					fmt.Fprintf(b, "%s  mark(\"type=\" , e.type)\n", ind)
					c04Render(e.block, ind+"  ", b, loopVar)
					continue
				}
				for i, t := range e.types {
					if i > 0 {
						b.WriteString(",")
					}
					fmt.Fprintf(b, " \"%s\"", t)
				}
				if e.as {
					b.WriteString(" as e")
				}
				b.WriteString(" {\n")
				if e.as {
					fmt.Fprintf(b, "%s  mark(\"type=\" , e.type)\n", ind)
				}
				c04Render(e.block, ind+"  ", b, loopVar)
			}
			if s.hasOther {
				fmt.Fprintf(b, "%s} otherwise {\n", ind)
				c04Render(s.other, ind+"  ", b, loopVar)
			}
			if s.hasFin {
				fmt.Fprintf(b, "%s} finally {\n", ind)
				c04Render(s.fin, ind+"  ", b, loopVar)
			}
			fmt.Fprintf(b, "%s}\n", ind)
		case "forrange", "forlist", "forcond", "formap", "forpairs", "formap1":
			c04FuncCtr++
			v := fmt.Sprintf("x%d", c04FuncCtr)
			switch s.kind {
			case "forrange":
				if s.s == 0 {
					fmt.Fprintf(b, "%sfor %s in range(%d, %d) {\n", ind, v, s.a, s.b)
				} else {
					fmt.Fprintf(b, "%sfor %s in range(%d, %d, %d) {\n", ind, v, s.a, s.b, s.s)
				}
			case "forlist":
				var l []string
				for _, x := range s.list {
					l = append(l, fmt.Sprint(x))
				}
				fmt.Fprintf(b, "%sfor %s in [%s] {\n", ind, v, strings.Join(l, ", "))
			case "forcond":
				fmt.Fprintf(b, "%s%s := 0\n%sfor %s < 3 {\n%s  %s := %s + 1\n", ind, v, ind, v, ind, v, v)
			case "formap":
				fmt.Fprintf(b, "%sm%s := {\"b\": 2, \"a\": 1, \"c\": 3}\n%sfor [k%s, %s] in m%s {\n", ind, v, ind, v, v, v)
			case "forpairs":
				fmt.Fprintf(b, "%sfor [k%s, %s] in [[10, 1], [20, 2]] {\n", ind, v, v)
			case "formap1":
				fmt.Fprintf(b, "%sm%s := {\"b\": 2, \"a\": 1, \"c\": 3}\n%sp%s := null\n%sfor e%s in m%s {\n%s  %s := e%s[1]\n", ind, v, ind, v, ind, v, v, ind, v, v)
			}
			fmt.Fprintf(b, "%s  mark(\"x=\", %s)\n", ind, v)
			if s.kind == "formap1" {
				fmt.Fprintf(b, "%s  if p%s != null {\n%s    mark(\"prev=\", p%s[0], p%s[1])\n%s  }\n%s  p%s := e%s\n", ind, v, ind, v, v, ind, ind, v, v)
			}
			if s.exit != nil {
				if s.when != 0 {
					fmt.Fprintf(b, "%s  if %s == %d {\n", ind, v, s.when)
					c04Render([]*cst{s.exit}, ind+"    ", b, v)
					fmt.Fprintf(b, "%s  }\n", ind)
				} else {
					c04Render([]*cst{s.exit}, ind+"  ", b, v)
				}
			}
			c04Render(s.body, ind+"  ", b, v)
			fmt.Fprintf(b, "%s}\n", ind)
		case "call":
			c04FuncCtr++
			f := fmt.Sprintf("f%d", c04FuncCtr)
			fmt.Fprintf(b, "%sfunc %s() {\n", ind, f)
			c04Render(s.body, ind+"  ", b, "")
			fmt.Fprintf(b, "%s}\n%smark(\"ret=\", %s())\n", ind, ind, f)
		case "if":
			for i := range s.conds {
				kw := "if"
				if i > 0 {
					kw = "} elif"
				}
				guard := fmt.Sprintf("g%d", i)
				if s.gkinds != nil {
					switch s.gkinds[i] {
					case 2:
						guard = "raise(\"A\", \"d\", 1)"
					case 3:
						guard = "1 + \"a\" == 1"
					}
				}
				fmt.Fprintf(b, "%s%s %s {\n", ind, kw, guard)
				c04Render(s.branches[i], ind+"  ", b, loopVar)
			}
			if s.hasEls {
				fmt.Fprintf(b, "%s} else {\n", ind)
				c04Render(s.els, ind+"  ", b, loopVar)
			}
			fmt.Fprintf(b, "%s}\n", ind)
		}
	}
}

func mk(k int) *cst { return &cst{kind: "mark", k: k} }

// c04Run executes one program on the real interpreter and compares.
func c04Run(c *Ctx, prog []*cst, conds []bool) {
	var b strings.Builder
	c04FuncCtr = 0
	c04Render(prog, "", &b, "")
	src := b.String()
	ref := &cref{}
	g := ref.exec(prog)
	if g.kind == "break" || g.kind == "continue" || g.kind == "return" {
		ref.unspec = "control statement leaving the program"
	}
	c.Begin(src)
	var trace []string
	out := evalECAL(src, evalOpts{budget: 5000, setup: func(vs parser.Scope, erp *interpreter.ECALRuntimeProvider) {
		vs.SetValue("mark", &hfunc{func(args []interface{}) (interface{}, error) {
			var p []string
			for _, a := range args {
				if f, ok := a.(float64); ok {
					p = append(p, fmt.Sprint(f))
				} else if a == nil {
					p = append(p, "null")
				} else {
					p = append(p, fmt.Sprint(a))
				}
			}
			trace = append(trace, strings.Join(p, ""))
			return nil, nil
		}})
		for i, cv := range conds {
			vs.SetValue(fmt.Sprintf("g%d", i), cv)
		}
	}})
	if ref.unspec != "" {
		c.Skip()
		return
	}
	c.Nontrivial()
	if out.panicKey != "" {
		c.Viol("panic: "+out.panicKey, fmt.Sprintf("program panics (%s):\n%s", out.panicMsg, src), src)
		return
	}
	if out.budget {
		c.Viol("does-not-terminate", "program did not finish within the step budget:\n"+src, src)
		return
	}
	if out.stage != "eval" {
		c.Viol("does-not-parse", fmt.Sprintf("%s error %v:\n%s", out.stage, out.err, src), src)
		return
	}
	want := strings.Join(ref.trace, " ")
	got := strings.Join(trace, " ")
	gotErr := ""
	if out.err != nil {
		gotErr = errType(out.err)
	}
	wantErr := ""
	if g.kind == "error" {
		wantErr = g.etype
	}
	if (got != want || gotErr != wantErr) && ref.otherCtl {
		// second admissible reading: otherwise also runs after return/break/continue
		refB := &cref{otherOnCtl: true}
		gB := refB.exec(prog)
		if refB.unspec != "" || gB.kind == "break" || gB.kind == "continue" || gB.kind == "return" {
			c.Skip()
			return
		}
		wantErrB := ""
		if gB.kind == "error" {
			wantErrB = gB.etype
		}
		if got == strings.Join(refB.trace, " ") && gotErr == wantErrB {
			g, want, wantErr = gB, got, wantErrB
		}
	}
	if got != want || gotErr != wantErr {
		c.Viol(c04Key(prog, got, want, gotErr, wantErr), fmt.Sprintf("trace [%s] error %q, expected trace [%s] error %q:\n%s", got, gotErr, want, wantErr, src), src)
		return
	}
	if g.kind == "error" && g.etype != "Operand is not a number" {
		// an unhandled raise propagates unchanged
		if re, ok := out.err.(*util.RuntimeErrorWithDetail); ok {
			if re.Detail != "d" || render(re.Data) != "1" {
				c.Viol("error-changed-while-propagating", fmt.Sprintf("propagated error has detail %q data %s, raised with \"d\" and 1:\n%s", re.Detail, render(re.Data), src), src)
				return
			}
		} else if re, ok := out.err.(*util.RuntimeError); ok {
			if re.Detail != "d" {
				c.Viol("error-changed-while-propagating", fmt.Sprintf("propagated error has detail %q:\n%s", re.Detail, src), src)
				return
			}
		}
	}
	c.Outcome("agrees")
}

// c04Key builds the construct signature of a failing program.
func c04Key(prog []*cst, got, want, gotErr, wantErr string) string {
	var feats []string
	var walk func(l []*cst, inTry bool)
	seen := map[string]bool{}
	add := func(f string) {
		if !seen[f] {
			seen[f] = true
			feats = append(feats, f)
		}
	}
	walk = func(l []*cst, inTry bool) {
		for _, s := range l {
			switch s.kind {
			case "try":
				for _, e := range s.excepts {
					switch {
					case len(e.types) == 0 && !e.as:
						add("bare-except")
					case len(e.types) == 0:
						add("except-as")
					case len(e.types) == 1 && !e.as:
						add("except-one-type-without-as")
					default:
						add("except-types")
					}
					walk(e.block, false)
				}
				walk(s.body, true)
				walk(s.other, false)
				walk(s.fin, false)
			case "break", "continue", "return":
				if inTry {
					add(s.kind + "-inside-try")
				}
			case "forrange":
				if s.a == s.b {
					add("range-start-equals-end")
				}
				walk(s.body, inTry)
				if s.exit != nil {
					walk([]*cst{s.exit}, inTry)
				}
			case "forlist", "forcond", "formap", "forpairs", "formap1":
				walk(s.body, inTry)
				if s.exit != nil {
					walk([]*cst{s.exit}, inTry)
				}
			case "call":
				walk(s.body, false)
			case "if":
				for _, br := range s.branches {
					walk(br, inTry)
				}
				walk(s.els, inTry)
			}
		}
	}
	walk(prog, false)
	return "behaviour-differs[" + strings.Join(feats, ",") + "]"
}

func init() {
	register(&Part{Prop: "C04", Name: "try-product", Quick: 8, Thor: 16,
		Desc: "every try statement = body exit kind (fall through, raise A, raise B, runtime error, return, break, continue) x handler shape (none, bare, as e, \"A\", \"A\" as e, \"A\",\"B\", \"A\" then bare, \"B\" then \"A\" as e) x otherwise (absent, marker, raising) x finally (absent, marker), placed at top level, in a loop body, in a function body and inside another try's body / except / otherwise block; handler blocks that themselves raise or return",
		Rule: "full product over the stated alphabet; non-trivial = the reference semantics defines the behaviour (marker trace, final error); the rest is counted as skipped",
		Run:  c04TryProduct})
	register(&Part{Prop: "C04", Name: "loops-and-ifs", Quick: 4, Thor: 8,
		Desc: "every loop kind (range(a,b[,s]) for a,b in 1..3 and s in {none,1,2,-1}; list; map as [key, value] in string order of keys; list of pairs with destructuring; condition) x exit statement (none, break, continue, return, raise) at every iteration x nesting in a second loop; if/elif/else chains with 1-3 guards x all truth assignments x else present/absent",
		Rule: "full product; non-trivial = defined by the reference",
		Run:  c04Loops})
}

func c04Handlers() [][]cexc {
	h := func(types []string, as bool, k int) cexc { return cexc{types: types, as: as, block: []*cst{mk(k)}} }
	return [][]cexc{
		nil,
		{h(nil, false, 20)},
		{h(nil, true, 20)},
		{h([]string{"A"}, false, 20)},
		{h([]string{"A"}, true, 20)},
		{h([]string{"A", "B"}, false, 20)},
		{h([]string{"A"}, false, 20), h(nil, false, 21)},
		{h([]string{"B"}, false, 20), h([]string{"A"}, true, 21)},
	}
}

func c04TryProduct(c *Ctx) {
	exits := []*cst{nil, {kind: "raise", etype: "A"}, {kind: "raise", etype: "B"}, {kind: "rterr"}, {kind: "return", val: 7}, {kind: "break"}, {kind: "continue"}}
	others := []struct {
		has  bool
		body []*cst
	}{{false, nil}, {true, []*cst{mk(30)}}, {true, []*cst{mk(30), {kind: "raise", etype: "C"}}}}
	ctxs := []string{"top", "loop", "func", "try-body", "except", "otherwise", "loop-in-func"}
	handlerExits := []*cst{nil, {kind: "raise", etype: "C"}, {kind: "return", val: 8}}
	for _, ctx := range ctxs {
		for _, ex := range exits {
			if ex != nil {
				if (ex.kind == "break" || ex.kind == "continue") && ctx != "loop" && ctx != "loop-in-func" {
					continue
				}
				if ex.kind == "return" && ctx != "func" && ctx != "loop-in-func" {
					continue
				}
			}
			for _, hs := range c04Handlers() {
				for _, ot := range others {
					for _, fin := range []bool{false, true} {
						for _, hx := range handlerExits {
							if hx != nil && (len(hs) == 0 || (hx.kind == "return" && ctx != "func" && ctx != "loop-in-func")) {
								continue
							}
							if c.Stopped() {
								return
							}
							if !c.Mine() {
								continue
							}
							body := []*cst{mk(10)}
							if ex != nil {
								body = append(body, ex)
							}
							body = append(body, mk(11))
							var excs []cexc
							for _, e := range hs {
								blk := append([]*cst{}, e.block...)
								if hx != nil {
									blk = append(blk, hx)
								}
								excs = append(excs, cexc{types: e.types, as: e.as, block: blk})
							}
							try := &cst{kind: "try", body: body, excepts: excs, hasOther: ot.has, other: ot.body, hasFin: fin, fin: []*cst{mk(40)}}
							inner := []*cst{mk(1), try, mk(2)}
							var prog []*cst
							switch ctx {
							case "top":
								prog = inner
							case "loop":
								prog = []*cst{{kind: "forrange", a: 1, b: 2, body: inner}, mk(3)}
							case "func":
								prog = []*cst{{kind: "call", body: inner}, mk(3)}
							case "loop-in-func":
								prog = []*cst{{kind: "call", body: []*cst{{kind: "forlist", list: []int{1, 2}, body: inner}, mk(4)}}, mk(3)}
							case "try-body":
								prog = []*cst{{kind: "try", body: inner, excepts: []cexc{{types: []string{"B"}, as: true, block: []*cst{mk(50)}}}, hasFin: true, fin: []*cst{mk(51)}}, mk(3)}
							case "except":
								prog = []*cst{{kind: "try", body: []*cst{{kind: "raise", etype: "Z"}}, excepts: []cexc{{types: []string{"Z"}, block: inner}}, hasFin: true, fin: []*cst{mk(51)}}, mk(3)}
							case "otherwise":
								prog = []*cst{{kind: "try", body: []*cst{mk(5)}, excepts: []cexc{{types: nil, as: true, block: []*cst{mk(50)}}}, hasOther: true, other: inner, hasFin: true, fin: []*cst{mk(51)}}, mk(3)}
							}
							c04Run(c, prog, nil)
						}
					}
				}
			}
		}
	}
	c.Sample("try { mark(10); raise(\"A\", \"d\", 1) } except \"B\" { mark(20) } finally { mark(40) }")
}

func c04Loops(c *Ctx) {
	exits := []*cst{nil, {kind: "break"}, {kind: "continue"}, {kind: "raise", etype: "A"}, {kind: "return", val: 5}}
	var loops []*cst
	for a := 1; a <= 3; a++ {
		for b := 1; b <= 3; b++ {
			for _, s := range []int{0, 1, 2, -1} {
				loops = append(loops, &cst{kind: "forrange", a: a, b: b, s: s})
			}
		}
	}
	loops = append(loops, &cst{kind: "forlist", list: []int{1, 2, 3}}, &cst{kind: "forlist", list: nil}, &cst{kind: "forlist", list: []int{2}}, &cst{kind: "forcond"},
		&cst{kind: "formap"}, &cst{kind: "forpairs"}, &cst{kind: "formap1"})
	for _, lp := range loops {
		for _, ex := range exits {
			for when := 0; when <= 3; when++ {
				if ex == nil && when > 0 {
					continue
				}
				for _, nest := range []string{"plain", "inner", "outer", "func"} {
					if ex != nil && ex.kind == "return" && nest != "func" {
						continue
					}
					if c.Stopped() {
						return
					}
					if !c.Mine() {
						continue
					}
					l := *lp
					l.exit, l.when = ex, when
					l.body = []*cst{mk(9)}
					var prog []*cst
					switch nest {
					case "plain":
						prog = []*cst{mk(1), &l, mk(2)}
					case "inner":
						prog = []*cst{mk(1), {kind: "forlist", list: []int{1, 2}, body: []*cst{&l, mk(8)}}, mk(2)}
					case "outer":
						l.body = []*cst{{kind: "forlist", list: []int{1, 2}, body: []*cst{mk(7)}}, mk(9)}
						prog = []*cst{mk(1), &l, mk(2)}
					case "func":
						prog = []*cst{mk(1), {kind: "call", body: []*cst{&l, mk(6)}}, mk(2)}
					}
					c04Run(c, prog, nil)
				}
			}
		}
	}
	// if chains
	for n := 1; n <= 3; n++ {
		for mask := 0; mask < 1<<uint(n); mask++ {
			for _, els := range []bool{false, true} {
				if !c.Mine() {
					continue
				}
				conds := make([]bool, n)
				var br [][]*cst
				for i := 0; i < n; i++ {
					conds[i] = mask&(1<<uint(i)) != 0
					br = append(br, []*cst{mk(10 + i)})
				}
				c04Run(c, []*cst{mk(1), {kind: "if", conds: conds, branches: br, hasEls: els, els: []*cst{mk(19)}}, mk(2)}, conds)
			}
		}
	}
	// if chains in which a guard fails: the error leaves the statement, no later
	// guard is evaluated and no branch runs; at top level and inside try
	for n := 1; n <= 3; n++ {
		total := 1
		for i := 0; i < n; i++ {
			total *= 4
		}
		for code := 0; code < total; code++ {
			conds := make([]bool, n)
			gk := make([]int, n)
			var br [][]*cst
			failing := false
			x := code
			for i := 0; i < n; i++ {
				switch x % 4 {
				case 1:
					conds[i] = true
				case 2, 3:
					gk[i] = x % 4
					failing = true
				}
				x /= 4
				br = append(br, []*cst{mk(10 + i)})
			}
			if !failing {
				continue
			}
			for _, els := range []bool{false, true} {
				if !c.Mine() {
					continue
				}
				ifst := &cst{kind: "if", conds: conds, gkinds: gk, branches: br, hasEls: els, els: []*cst{mk(19)}}
				c04Run(c, []*cst{mk(1), ifst, mk(2)}, conds)
				c04Run(c, []*cst{mk(1), {kind: "try", body: []*cst{ifst, mk(3)}, excepts: []cexc{{types: []string{"A"}, block: []*cst{mk(30)}}, {block: []*cst{mk(31)}}},
					hasOther: true, other: []*cst{mk(32)}, hasFin: true, fin: []*cst{mk(33)}}, mk(2)}, conds)
			}
		}
	}
	c.Sample("for x1 in range(3, 1, -1) { mark(\"x=\", x1); if x1 == 2 { continue }; mark(9) }")
}

// ---------------------------------------------------------------------------
// return leaves the innermost function with ITS value, also when the finally
// block it passes through runs the same return statement again (recursion,
// another call of the same function) before the caller has received the value.

func init() {
	register(&Part{Prop: "C04", Name: "return-through-finally", Quick: 1, Thor: 1,
		Desc: "a function that returns from inside try and, in the finally block, calls itself / a second function with the same shape (depth 0-4), in 4 shapes (finally recursion, except recursion, two functions alternating, return value computed by a recursive call in an argument): every call returns its own value; reference = the recursion written in Go",
		Rule: "shapes x depths; every case non-trivial",
		Run: func(c *Ctx) {
			type shape struct {
				name string
				src  string // uses F for the function name, D for the depth
				ref  func(d int, trace *[]string) int
			}
			var unwind func(n int, trace *[]string) int
			unwind = func(n int, trace *[]string) int {
				if n > 0 {
					*trace = append(*trace, fmt.Sprintf("inner%d", unwind(n-1, trace)))
				}
				return n
			}
			shapes := []shape{
				{"finally-recursion", "func f(n) {\n  try {\n    return n\n  } finally {\n    if n > 0 {\n      mark(\"inner\", f(n - 1))\n    }\n  }\n}\nmark(\"outer\", f(D))",
					func(d int, tr *[]string) int { return unwind(d, tr) }},
				{"except-recursion", "func f(n) {\n  try {\n    raise(\"E\")\n  } except {\n    if n > 0 {\n      mark(\"inner\", f(n - 1))\n    }\n    return n\n  }\n}\nmark(\"outer\", f(D))",
					func(d int, tr *[]string) int { return unwind(d, tr) }},
				{"argument-recursion", "func g(a, b) {\n  return a\n}\nfunc f(n) {\n  if n == 0 {\n    return 0\n  }\n  return g(n, f(n - 1))\n}\nmark(\"outer\", f(D))",
					func(d int, tr *[]string) int { return d }},
				{"two-functions", "func a(n) {\n  try {\n    return n * 10\n  } finally {\n    if n > 0 {\n      mark(\"inner\", b(n - 1))\n    }\n  }\n}\nfunc b(n) {\n  try {\n    return n * 10\n  } finally {\n    if n > 0 {\n      mark(\"inner\", a(n - 1))\n    }\n  }\n}\nmark(\"outer\", a(D) / 10)",
					func(d int, tr *[]string) int {
						var ab func(n int) int
						ab = func(n int) int {
							if n > 0 {
								*tr = append(*tr, fmt.Sprintf("inner%d", ab(n-1)))
							}
							return n * 10
						}
						return ab(d) / 10
					}},
			}
			for _, sh := range shapes {
				for d := 0; d <= 4; d++ {
					if !c.Mine() {
						continue
					}
					src := strings.Replace(sh.src, "D", fmt.Sprint(d), -1)
					c.Begin(src)
					var want []string
					res := sh.ref(d, &want)
					want = append(want, fmt.Sprintf("outer%d", res))
					var trace []string
					out := evalECAL(src, evalOpts{budget: 100000, setup: func(vs parser.Scope, erp *interpreter.ECALRuntimeProvider) {
						vs.SetValue("mark", &hfunc{func(args []interface{}) (interface{}, error) {
							var p []string
							for _, a := range args {
								p = append(p, fmt.Sprint(a))
							}
							trace = append(trace, strings.Join(p, ""))
							return nil, nil
						}})
					}})
					if out.panicKey != "" || out.err != nil || out.budget {
						c.Viol("return-through-finally program fails", fmt.Sprintf("%v %v\n%s", out.panicKey, out.err, src), src)
						continue
					}
					c.Nontrivial()
					if fmt.Sprint(trace) != fmt.Sprint(want) {
						c.Viol("return delivers another call's value ("+sh.name+")", fmt.Sprintf("trace %v, expected %v\n%s", trace, want, src), src)
						continue
					}
					c.Outcome("agrees")
				}
			}
			c.Sample("func f(n) { try { return n } finally { if n > 0 { mark(\"inner\", f(n - 1)) } } }  f(2): inner0 inner1 outer2")
		}})
}
