package main

import (
	"fmt"
	"math"
	"strings"
	"sync"

	"github.com/krotik/ecal/interpreter"
	"github.com/krotik/ecal/parser"
)

// ---------------------------------------------------------------------------
// C10 from ECAL: the priority attribute of a sink IS the rule's priority. Three
// sinks on one event kind with priorities over {-2, -1, 0, 1, 2.7} in every
// declaration order and every failing subset; fail-on-first-error is on for
// ECAL sinks. Reference: ascending priority number (floor of the attribute),
// nothing after the first failing sink, every other sink before it.

func init() {
	register(&Part{Prop: "C10", Name: "ecal-sink-priorities", Quick: 2, Thor: 2,
		Desc: "3 ECAL sinks on one kind x priorities {-2, -1, 0, 1, 2.7}^3 (every declaration order of every combination) x failing subset (8): the sinks run in ascending order of their priority numbers (negative numbers run before 0), no sink runs after the first failing one, every sink with a smaller number than the failing one ran",
		Rule: "125 priority triples x 8 failing subsets; every case non-trivial",
		Run: func(c *Ctx) {
			prios := []float64{-2, -1, 0, 1, 2.7}
			for _, p0 := range prios {
				for _, p1 := range prios {
					for _, p2 := range prios {
						for mask := 0; mask < 8; mask++ {
							if !c.Mine() {
								continue
							}
							ps := []float64{p0, p1, p2}
							var src strings.Builder
							for i, p := range ps {
								body := fmt.Sprintf("hit(%d)", i)
								if mask&(1<<uint(i)) != 0 {
									body += fmt.Sprintf("\n    raise(\"Fail%d\")", i)
								}
								fmt.Fprintf(&src, "sink s%d\n  kindmatch [\"k\"],\n  priority %v,\n  {\n    %s\n  }\n", i, p, body)
							}
							src.WriteString("res := addEventAndWait(\"e\", \"k\", {})\n")
							c.Begin(src.String())
							var mu sync.Mutex
							var ran []int
							var erpRef *interpreter.ECALRuntimeProvider
							out := evalECAL(src.String(), evalOpts{budget: 100000, setup: func(vs parser.Scope, erp *interpreter.ECALRuntimeProvider) {
								erpRef = erp
								vs.SetValue("hit", &hfunc{func(args []interface{}) (interface{}, error) {
									mu.Lock()
									ran = append(ran, int(args[0].(float64)))
									mu.Unlock()
									return nil, nil
								}})
							}})
							if erpRef != nil {
								erpRef.Processor.Finish()
							}
							if out.panicKey != "" || out.err != nil {
								c.Viol("ecal priority program fails", fmt.Sprintf("%v %v\n%s", out.panicKey, out.err, src.String()), src.String())
								continue
							}
							c.Nontrivial()
							pr := func(i int) float64 { return math.Floor(ps[i]) }
							bad := ""
							for k := 1; k < len(ran); k++ {
								if pr(ran[k-1]) > pr(ran[k]) {
									bad = fmt.Sprintf("sinks ran in order %v with priorities %v", ran, ps)
								}
							}
							seen := map[int]bool{}
							for k, i := range ran {
								seen[i] = true
								if mask&(1<<uint(i)) != 0 && k != len(ran)-1 {
									bad = fmt.Sprintf("sinks %v ran after sink s%d failed (priorities %v, order %v)", ran[k+1:], i, ps, ran)
								}
							}
							if len(ran) > 0 {
								last := ran[len(ran)-1]
								for i := range ps {
									if !seen[i] && (pr(i) < pr(last) || mask&(1<<uint(last)) == 0) {
										bad = fmt.Sprintf("sink s%d (priority %v) did not run although no earlier sink failed (order %v, priorities %v, failing mask %03b)", i, ps[i], ran, ps, mask)
									}
								}
							} else {
								bad = "no sink ran"
							}
							if bad != "" {
								c.Viol("ecal sinks do not run in priority order", bad+"\n"+src.String(), src.String())
								continue
							}
							c.Outcome("priority-order")
						}
					}
				}
			}
			c.Sample("sink a priority 0 { hit(0) }  sink b priority -1 { hit(1) }: b runs first")
		}})
}
