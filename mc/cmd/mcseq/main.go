// mcseq is the Engine-B worker: it is compiled against the plain repository
// (plus overlay-added export seams) and enumerates all inputs / programs /
// operation sequences of one part of a property up to the stated bound,
// comparing the real code with an independent reference model.
package main

import (
	"encoding/json"
	"flag"
	"fmt"
	"io/ioutil"
	"os"
	"runtime"
	"runtime/debug"
	"sort"
	"strings"
	"sync"
	"time"
)

// Part is one enumeration of a property.
type Part struct {
	Prop, Name, Desc string
	Quick, Thor      int // shards per tier (0 = not run in that tier)
	Rule             string
	Run              func(c *Ctx)
	// Replay runs one recorded input again and returns a violation key or "".
	Replay func(c *Ctx, input string)
}

var parts []*Part

func register(p *Part) { parts = append(parts, p) }

type Violation struct {
	Key   string      `json:"Key"`
	Msg   string      `json:"Msg"`
	Input string      `json:"Input,omitempty"`
	Extra interface{} `json:"Extra,omitempty"`
}

type Result struct {
	Prop        string                 `json:"prop"`
	Engine      string                 `json:"engine"`
	Scenario    string                 `json:"scenario"`
	Desc        string                 `json:"desc"`
	Shard       int                    `json:"shard"`
	NShards     int                    `json:"nshards"`
	Execs       int64                  `json:"executions"`
	Nontrivial  int64                  `json:"nontrivial"`
	Skipped     int64                  `json:"unspecified_skipped"`
	Outcomes    map[string]int64       `json:"outcomes"`
	Capped      string                 `json:"capped,omitempty"`
	HarnessErr  string                 `json:"harness_error,omitempty"`
	Violations  []*Violation           `json:"violations,omitempty"`
	Samples     []interface{}          `json:"samples,omitempty"`
	WallS       float64                `json:"wall_s"`
	Extra       map[string]interface{} `json:"extra,omitempty"`
	Rule        string                 `json:"rule,omitempty"`
	States      int                    `json:"states"`
	Transitions int64                  `json:"transitions"`
}

// Ctx is handed to a part's Run function.
type Ctx struct {
	Tier     string
	Shard    int
	NShards  int
	deadline time.Time
	res      *Result
	idx      int64
	viol     map[string]bool
	mu       sync.Mutex
	current  string
	lastBeat time.Time
	curFile  string
	stopped  bool
	MaxViol  int
}

func (c *Ctx) Thorough() bool { return c.Tier == "thorough" }

// Mine reports whether the next enumerated case belongs to this shard; it
// also enforces the wall-clock budget (a cap, never an alarm).
func (c *Ctx) Mine() bool {
	i := c.idx
	c.idx++
	if c.stopped {
		return false
	}
	if i%int64(c.NShards) != int64(c.Shard) {
		return false
	}
	if i&1023 == 0 && !c.deadline.IsZero() && time.Now().After(c.deadline) {
		c.res.Capped = "wall-clock budget"
		c.stopped = true
		return false
	}
	return true
}

// Stopped reports that the budget is exhausted (enumerators should return).
func (c *Ctx) Stopped() bool { return c.stopped }

// Begin marks the start of one evaluated case (for the progress watchdog and
// the attribution of fatal errors).
func (c *Ctx) Begin(input string) {
	c.mu.Lock()
	c.current = input
	c.lastBeat = time.Now()
	c.mu.Unlock()
	c.res.Execs++
}

// Risky additionally records the input in a side file so that a process-killing
// fatal error can be attributed by the driver.
func (c *Ctx) Risky(input string) {
	c.Begin(input)
	if c.curFile != "" {
		ioutil.WriteFile(c.curFile, []byte(input), 0644)
	}
}

func (c *Ctx) Nontrivial()      { c.res.Nontrivial++ }
func (c *Ctx) Skip()            { c.res.Skipped++ }
func (c *Ctx) Outcome(o string) { c.res.Outcomes[o]++ }
func (c *Ctx) Extra(k string, v interface{}) {
	if c.res.Extra == nil {
		c.res.Extra = map[string]interface{}{}
	}
	c.res.Extra[k] = v
}
func (c *Ctx) AddStates(n int, t int64) { c.res.States += n; c.res.Transitions += t }

func (c *Ctx) Sample(x interface{}) {
	if len(c.res.Samples) < 4 {
		c.res.Samples = append(c.res.Samples, x)
	}
}

// Viol records a violation (one per distinct key).
func (c *Ctx) Viol(key, msg, input string) {
	if c.viol[key] {
		return
	}
	c.viol[key] = true
	c.res.Violations = append(c.res.Violations, &Violation{Key: key, Msg: msg, Input: input})
	if c.MaxViol > 0 && len(c.res.Violations) >= c.MaxViol {
		c.res.Capped = "max distinct violations"
		c.stopped = true
	}
}

// Guard runs f and converts a panic into a description: class of the panic
// value plus the innermost function of the repository on the stack.
func Guard(f func()) (panicKey string, panicMsg string) {
	defer func() {
		if r := recover(); r != nil {
			buf := make([]byte, 1<<16)
			buf = buf[:runtime.Stack(buf, false)]
			panicKey = panicClass(r) + "@" + innermostRepoFunc(string(buf))
			panicMsg = fmt.Sprintf("%v\n%s", r, trimStack(string(buf)))
		}
	}()
	f()
	return "", ""
}

func panicClass(r interface{}) string {
	s := fmt.Sprint(r)
	for _, p := range []string{"index out of range", "slice bounds out of range", "nil pointer dereference", "nil map", "interface conversion",
		"hash of unhashable type", "integer divide by zero", "comparing uncomparable", "invalid memory address"} {
		if strings.Contains(s, p) {
			return "panic(" + p + ")"
		}
	}
	if len(s) > 60 {
		s = s[:60]
	}
	return "panic(" + s + ")"
}

func innermostRepoFunc(stack string) string {
	lines := strings.Split(stack, "\n")
	for _, l := range lines {
		if strings.HasPrefix(l, "github.com/krotik/ecal/") && !strings.Contains(l, "zzverif") {
			f := strings.TrimPrefix(l, "github.com/krotik/ecal/")
			if i := strings.LastIndex(f, "("); i > 0 {
				f = f[:i]
			}
			return f
		}
	}
	return "?"
}

func trimStack(s string) string {
	lines := strings.Split(s, "\n")
	var out []string
	for i, l := range lines {
		if strings.HasPrefix(l, "github.com/krotik/") || strings.HasPrefix(l, "main.") {
			out = append(out, l)
			if i+1 < len(lines) {
				out = append(out, lines[i+1])
			}
		}
		if len(out) > 16 {
			break
		}
	}
	return strings.Join(out, "\n")
}

func main() {
	list := flag.Bool("list", false, "")
	prop := flag.String("prop", "", "")
	part := flag.String("part", "", "")
	tier := flag.String("tier", "quick", "")
	shard := flag.Int("shard", 0, "")
	nshards := flag.Int("nshards", 1, "")
	budget := flag.Float64("budget", 0, "")
	replay := flag.String("replay-input", "", "")
	verbose := flag.Bool("v", false, "")
	flag.Parse()
	debug.SetMaxStack(256 << 20)
	if *list {
		type item struct {
			Prop, Name, Desc string
			Quick, Thor      int
		}
		var out []item
		for _, p := range parts {
			if *prop == "" || p.Prop == *prop {
				out = append(out, item{p.Prop, p.Name, p.Desc, p.Quick, p.Thor})
			}
		}
		json.NewEncoder(os.Stdout).Encode(out)
		return
	}
	var pt *Part
	for _, p := range parts {
		if p.Prop == *prop && p.Name == *part {
			pt = p
		}
	}
	if pt == nil {
		fmt.Fprintf(os.Stderr, "unknown part %s/%s\n", *prop, *part)
		os.Exit(2)
	}
	res := &Result{Prop: pt.Prop, Engine: "B", Scenario: pt.Name, Desc: pt.Desc, Shard: *shard, NShards: *nshards, Outcomes: map[string]int64{}, Rule: pt.Rule}
	c := &Ctx{Tier: *tier, Shard: *shard, NShards: *nshards, res: res, viol: map[string]bool{}, curFile: os.Getenv("VERIF_CURFILE"), MaxViol: 40}
	start := time.Now()
	if *budget > 0 {
		c.deadline = start.Add(time.Duration(*budget * float64(time.Second)))
	}
	c.lastBeat = start
	if *replay != "" {
		if pt.Replay == nil {
			fmt.Fprintln(os.Stderr, "part has no replay function")
			os.Exit(2)
		}
		pt.Replay(c, *replay)
		for _, v := range res.Violations {
			fmt.Println("VIOLATION:", v.Key)
			fmt.Println(v.Msg)
		}
		if len(res.Violations) > 0 {
			os.Exit(1)
		}
		fmt.Println("no violation on replay")
		return
	}
	// progress watchdog: 5-6 orders of magnitude above the per-case time
	go func() {
		for {
			time.Sleep(2 * time.Second)
			c.mu.Lock()
			stuck := time.Since(c.lastBeat) > 60*time.Second
			cur := c.current
			c.mu.Unlock()
			if stuck {
				res.Violations = append(res.Violations, &Violation{Key: "no-termination", Msg: "case did not return within 60s", Input: cur})
				res.Capped = "aborted after a non-terminating case"
				res.WallS = time.Since(start).Seconds()
				json.NewEncoder(os.Stdout).Encode(res)
				os.Exit(0)
			}
		}
	}()
	pt.Run(c)
	res.WallS = time.Since(start).Seconds()
	sort.Slice(res.Violations, func(i, j int) bool { return res.Violations[i].Key < res.Violations[j].Key })
	if *verbose {
		js, _ := json.MarshalIndent(res, "", " ")
		fmt.Println(string(js))
		return
	}
	json.NewEncoder(os.Stdout).Encode(res)
}
