package main

import (
	"fmt"
	"strings"

	"github.com/krotik/ecal/interpreter"
	"github.com/krotik/ecal/parser"
	"github.com/krotik/ecal/scope"
	"github.com/krotik/ecal/util"
)

// ---------------------------------------------------------------------------
// C18 — tokens, errors and breakpoints carry the true source position

type c18Item struct {
	text   string
	off    int  // offset of the reported first character inside text
	symbol bool // a symbol token: may touch its neighbours
	cmt    bool
	last   bool // only legal as the last item
}

var c18Items = []c18Item{
	{text: "ab"},
	{text: "12"},
	{text: ":=", symbol: true},
	{text: "(", symbol: true},
	{text: `"s"`},
	{text: `"é"`},
	{text: "\"x\ny\""},
	{text: "r\"x\ny\""},
	{text: "r\"\nx\""},  // line break as the first character of the body (C18-g)
	{text: "r'x\n'"},    // ... and as the last one
	{text: "r\"\n\n\""}, // ... and nothing else
	{text: "# c\n", off: 1, cmt: true},
	{text: "# c", off: 1, cmt: true, last: true},
	{text: "# c\r\n", off: 1, cmt: true},
	{text: "# c\rd\n", off: 1, cmt: true},
	{text: "/* c */", off: 2, cmt: true},
	{text: "/* c\nd */", off: 2, cmt: true},
	{text: "/*\nc\n*/", off: 2, cmt: true},
}

var c18Seps = []string{" ", "\n", "\r\n", "\t", ""}

// lineCol recomputes line and column (bytes, from 1) of a byte offset.
func lineCol(src string, off int) (int, int) {
	line, last := 1, 0
	for i := 0; i < off && i < len(src); i++ {
		if src[i] == '\n' {
			line++
			last = i + 1
		}
	}
	return line, off - last + 1
}

// knownHashCol: the recorded finding C18-1 is exact: the newline that ends a
// # comment is counted as a line but not recorded as the start of the next
// line, so a position on a later line is reported with the right line and with
// the column measured from the last line start the lexer DID record. swallowed
// holds the offsets of the newlines that end # comments (known from the
// generator, not from the lexer). Only a report of exactly (true line, that
// column) belongs to the finding; any other wrong position is a violation.
func knownHashCol(src string, off int, swallowed []int) int {
	sw := map[int]bool{}
	for _, o := range swallowed {
		sw[o] = true
	}
	last := 0
	for i := 0; i < off && i < len(src); i++ {
		if src[i] == '\n' && !sw[i] {
			last = i + 1
		}
	}
	return off - last + 1
}

// hashNewlines returns the offsets of the newlines that end the # comments of
// a source assembled from generator pieces: a piece that starts with # and ends
// with a newline contributes its final newline.
func hashNewlines(pieces []string, starts []int) []int {
	var out []int
	for i, p := range pieces {
		if strings.HasPrefix(p, "#") && strings.HasSuffix(p, "\n") {
			out = append(out, starts[i]+len(p)-1)
		}
	}
	return out
}

// afterHashComment reports whether the line before the one containing off ends
// in a # comment (the known finding C18-1 is confined to such lines).
func afterHashComment(src string, off int) bool {
	prevLineEnd := strings.LastIndex(src[:off], "\n")
	if prevLineEnd < 0 {
		return false
	}
	pl := src[:prevLineEnd]
	if j := strings.LastIndex(pl, "\n"); j >= 0 {
		pl = pl[j+1:]
	}
	return strings.Contains(pl, "#")
}

func c18CheckTokens(c *Ctx, src string, offs []int, swallowed []int) {
	c.Begin(src)
	var toks []parser.LexToken
	if pk, pm := Guard(func() { toks = parser.LexToList("v", src) }); pk != "" {
		c.Viol(pk, pm, src)
		return
	}
	if n := len(toks); n > 0 && toks[n-1].ID == parser.TokenEOF {
		toks = toks[:n-1]
	}
	if len(toks) != len(offs) {
		c.Skip() // the item sequence does not lex into one token per item
		return
	}
	c.Nontrivial()
	for i, t := range toks {
		if t.ID == parser.TokenError {
			c.Skip()
			return
		}
		wl, wc := lineCol(src, offs[i])
		if t.Pos != offs[i] || t.Lline != wl || t.Lpos != wc {
			kind := "token"
			if t.Pos == offs[i] && t.Lline == wl && t.Lpos != wc && t.Lpos == knownHashCol(src, offs[i], swallowed) {
				kind = "token on the line after a # comment"
			}
			c.Viol("wrong-position: "+kind, fmt.Sprintf("source %q: token %d (%q) reported at offset %d line %d column %d, its first character is at offset %d line %d column %d",
				src, i, t.Val, t.Pos, t.Lline, t.Lpos, offs[i], wl, wc), src)
			return
		}
	}
	c.Outcome("positions-ok")
}

func c18Enumerate(c *Ctx, maxItems int, seps []string) {
	var rec func(src string, offs []int, prev *c18Item, swallowed []int)
	rec = func(src string, offs []int, prev *c18Item, swallowed []int) {
		if c.Stopped() {
			return
		}
		if len(offs) > 0 && c.Mine() {
			c18CheckTokens(c, src, offs, swallowed)
		}
		if len(offs) == maxItems || (prev != nil && prev.last) {
			return
		}
		for i := range c18Items {
			it := &c18Items[i]
			for _, sep := range seps {
				if prev == nil && sep != "" {
					continue
				}
				if prev != nil && sep == "" {
					// touching is only generated where the lexer cannot merge the two items
					if !(prev.symbol || it.symbol || (prev.cmt && strings.HasSuffix(prev.text, "\n"))) {
						continue
					}
					if prev.text == ":=" && it.text == ":=" || prev.text == "(" && it.text == ":=" {
						// fine: distinct symbols
					}
				}
				sw := swallowed
				if strings.HasPrefix(it.text, "#") && strings.HasSuffix(it.text, "\n") {
					sw = append(append([]int{}, swallowed...), len(src)+len(sep)+len(it.text)-1)
				}
				rec(src+sep+it.text, append(append([]int{}, offs...), len(src)+len(sep)+it.off), it, sw)
			}
		}
	}
	rec("", nil, nil, nil)
}

// planted errors and statement separation
var c18Fillers = []string{"a := 1", "t := [true, null, false]", "b := \"s\"", "/* c */", "/* c\nd */", "# c\n", "x := r\"x\ny\"", "w := r\"\nx\"", "y := [1,\n2]", "z := \"é\""}

func c18Planted(c *Ctx, maxFill int) {
	var rec func(src string, n int, swallowed []int)
	rec = func(src string, n int, swallowed []int) {
		if c.Stopped() {
			return
		}
		// knownAt: the reported position is exactly what the recorded finding C18-1 predicts
		knownAt := func(text string, off, line, pos, wl, wc int) bool {
			return line == wl && pos != wc && pos == knownHashCol(text, off, swallowed)
		}
		_ = knownAt
		if c.Mine() {
			for _, sep := range []string{"\n", "\n  ", "\n\t"} {
				// (a) stray closing parenthesis
				bad := src + sep + ")"
				off := len(src) + len(sep)
				c.Begin(bad)
				var err error
				if pk, pm := Guard(func() { _, err = parser.Parse("v", bad) }); pk != "" {
					c.Viol(pk, pm, bad)
				} else if pe, ok := err.(*parser.Error); ok {
					wl, wc := lineCol(bad, off)
					c.Nontrivial()
					if !strings.Contains(pe.Detail, ")") {
						c.Skip() // a different (earlier) error was reported
					} else if pe.Line != wl || pe.Pos != wc {
						k := "wrong-position: parser error"
						if knownAt(bad, off, pe.Line, pe.Pos, wl, wc) {
							k += " on the line after a # comment"
						}
						c.Viol(k, fmt.Sprintf("source %q: parser error reported at line %d column %d, the stray ')' is at line %d column %d (%v)", bad, pe.Line, pe.Pos, wl, wc, pe), bad)
					} else {
						c.Outcome("parser-error-position-ok")
					}
				} else {
					c.Skip()
				}
				// (b) runtime error
				for _, bad := range []string{"q := 1 + \"a\"", "q := 2 * true", "q := 3 + null"} {
					rt := src + sep + bad
					off = len(src) + len(sep)
					c.Begin(rt)
					erp := interpreter.NewECALRuntimeProvider("v", nil, nil)
					erp.Cron.Stop()
					var rerr error
					if pk, pm := Guard(func() {
						ast, err := parser.ParseWithRuntime("v", rt, erp)
						if err != nil {
							rerr = err
							return
						}
						if err = ast.Runtime.Validate(); err != nil {
							rerr = err
							return
						}
						_, rerr = ast.Runtime.Eval(scope.NewScope(scope.GlobalScope), make(map[string]interface{}), erp.NewThreadID())
					}); pk != "" {
						c.Viol(pk, pm, rt)
					} else if re, ok := rerr.(*util.RuntimeError); ok {
						wl, wc := lineCol(rt, off)
						c.Nontrivial()
						// the expression `q := 1 + "a"` spans columns wc .. wc+11 of line wl
						if re.Line != wl || re.Pos < wc || re.Pos > wc+11 {
							k := "wrong-position: runtime error"
							if kc := knownHashCol(rt, off, swallowed); re.Line == wl && kc != wc && re.Pos >= kc && re.Pos <= kc+11 {
								k += " on the line after a # comment"
							}
							c.Viol(k, fmt.Sprintf("source %q: runtime error reported at line %d column %d, the failing expression is at line %d columns %d-%d (%v)", rt, re.Line, re.Pos, wl, wc, wc+11, re), rt)
						} else {
							c.Outcome("runtime-error-position-ok")
						}
					} else {
						c.Skip()
					}
				}
				// (b2) an error raised by raise(...) whose arguments contain calls, also over several lines
				for _, rs := range []string{"raise(\"E\", \"d\", len([1]))", "raise(\"E\",\n  concat([1], [2]),\n  len([1, 2]))", "raise(\"E\", \"{{len([1])}}\")"} {
					rsrc := src + sep + rs
					off = len(src) + len(sep)
					c.Begin(rsrc)
					erp2 := interpreter.NewECALRuntimeProvider("v", nil, nil)
					erp2.Cron.Stop()
					var rerr2 error
					if pk, pm := Guard(func() {
						ast, err := parser.ParseWithRuntime("v", rsrc, erp2)
						if err != nil {
							rerr2 = err
							return
						}
						if err = ast.Runtime.Validate(); err != nil {
							rerr2 = err
							return
						}
						_, rerr2 = ast.Runtime.Eval(scope.NewScope(scope.GlobalScope), make(map[string]interface{}), erp2.NewThreadID())
					}); pk != "" {
						c.Viol(pk, pm, rsrc)
					} else if re, ok := rerr2.(*util.RuntimeErrorWithDetail); ok && re.Type.Error() == "E" {
						wl, wc := lineCol(rsrc, off)
						c.Nontrivial()
						if re.Line != wl || re.Pos != wc {
							k := "wrong-position: raised error"
							if knownAt(rsrc, off, re.Line, re.Pos, wl, wc) {
								k += " on the line after a # comment"
							}
							c.Viol(k, fmt.Sprintf("source %q: the error raised by raise(...) is reported at line %d column %d, the raise call is at line %d column %d", rsrc, re.Line, re.Pos, wl, wc), rsrc)
						} else {
							c.Outcome("raised-error-position-ok")
						}
					} else {
						c.Skip()
					}
				}
				// (c) statement separation is unaffected by comments
				two := src + sep + "s1 := 1\n" + "/* k */ s2 := 2"
				c.Begin(two)
				nst := 0
				for _, f := range strings.Split(src, "\x00") {
					_ = f
				}
				var ast *parser.ASTNode
				if pk, pm := Guard(func() { ast, err = parser.Parse("v", two) }); pk != "" {
					c.Viol(pk, pm, two)
				} else if err == nil && ast != nil {
					want := c18CountStatements(src) + 2
					if ast.Name == parser.NodeSTATEMENTS {
						nst = len(ast.Children)
					} else {
						nst = 1
					}
					c.Nontrivial()
					if nst != want {
						c.Viol("statement-separation", fmt.Sprintf("source %q parses into %d statements, it has %d", two, nst, want), two)
					} else {
						c.Outcome("statement-separation-ok")
					}
				} else {
					c.Skip()
				}
			}
		}
		if n == maxFill {
			return
		}
		for _, f := range c18Fillers {
			s := src
			if s != "" && !strings.HasSuffix(s, "\n") {
				s += "\n"
			}
			sw := swallowed
			if strings.HasPrefix(f, "#") && strings.HasSuffix(f, "\n") {
				sw = append(append([]int{}, swallowed...), len(s)+len(f)-1)
			}
			rec(s+f, n+1, sw)
		}
	}
	rec("", 0, nil)
}

// c18Separation: "statement separation, which is decided from token lines, is
// unaffected by comments". Differential oracle: two statements separated by a
// newline and the same two statements with a comment placed around that newline
// must parse to the same tree (positions and comments ignored), for statements
// that start with every kind of term (identifier, literal, bracket, prefix
// operator, keyword).
var c18Stmts = []string{"a := 1", "[a, b] := [1, 2]", "(1 + 2)", "not true", "-1", "+a", "\"s\"", "r\"s\"", "f(1)", "let x := 1", "1", "null", "true",
	"if a {\n    b := 1\n}", "for i in l {\n    log(i)\n}", "func g() {\n}", "try {\n} finally {\n}", "mutex m {\n}", "return 1", "x.y := 2", "a[1] := 3", "import \"x\" as y"}

var c18CommentSeps = []string{" # c\n", "\n# c\n", "\n/* c */ ", "\n/* c */\n", " /* c */\n", " /* c\nd */ ", "\n/* c\nd */\n", "\n\n# c\n", "\n# c\n\n", " /* c */ # d\n", "\n/**/ ", " #\n", "\r\n# c\r\n"}

func c18Separation(c *Ctx) {
	for _, s1 := range c18Stmts {
		for _, s2 := range c18Stmts {
			for _, s3 := range []string{"", "\nz := 9"} {
				if !c.Mine() {
					continue
				}
				plain := s1 + "\n" + s2 + s3
				var base *parser.ASTNode
				var berr error
				if pk, pm := Guard(func() { base, berr = parser.Parse("v", plain) }); pk != "" {
					c.Begin(plain)
					c.Viol(pk, pm, plain)
					continue
				}
				for _, sep := range c18CommentSeps {
					src := s1 + sep + s2 + s3
					c.Begin(src)
					var ast *parser.ASTNode
					var err error
					if pk, pm := Guard(func() { ast, err = parser.Parse("v", src) }); pk != "" {
						c.Viol(pk, pm, src)
						continue
					}
					c.Nontrivial()
					switch {
					case (berr == nil) != (err == nil):
						c.Viol("statement-separation changed by a comment", fmt.Sprintf("%q parses with result %v, the same statements with a comment between them %q with result %v", plain, berr, src, err), src)
					case berr == nil:
						if d := treeDiff(base, ast, "", 0); d != "" {
							c.Viol("statement-separation changed by a comment", fmt.Sprintf("%q and %q parse into different trees: %s", plain, src, d), src)
						} else {
							c.Outcome("same-tree")
						}
					default:
						c.Outcome("both-rejected")
					}
				}
			}
		}
	}
	c.Sample("\"a := 1\\n[a, b] := [1, 2]\" vs \"a := 1 # c\\n[a, b] := [1, 2]\": same tree")
}

func c18CountStatements(src string) int {
	n := 0
	for _, f := range c18Fillers {
		if strings.Contains(f, ":=") {
			n += strings.Count(src, f)
		}
	}
	return n
}

func init() {
	register(&Part{Prop: "C18", Name: "separation-by-comments", Quick: 2, Thor: 2,
		Desc: "22 statements starting with every kind of term (identifier, literals, [ ( prefix operators, keywords) in every ordered pair (+ an optional third statement) x 13 ways of placing a comment around the separating line break (# to end of line, own-line #, /* */ before / after / spanning the break, empty comments, CR LF): the parse must equal the parse of the comment-free text (positions and comments ignored)",
		Rule: "full product; non-trivial = every case",
		Run:  c18Separation})
	register(&Part{Prop: "C18", Name: "token-positions", Quick: 16, Thor: 32,
		Desc: "every sequence of <= 4 items (thorough: also 5 items with separators {space, LF, none}) over {identifier, number, :=, (, quoted strings incl. multi-byte and literal newline, raw multi-line strings incl. bodies that start with, end with or consist only of line breaks, # comments, /* */ comments incl. multi-line and starting with a line break} x separators {space, LF, CRLF, tab, none where the lexer cannot merge}; oracle: Pos = recorded offset, Lline/Lpos recomputed from the source text",
		Rule: "odometer over items x separators; non-trivial = the source lexes into exactly one token per generated item (others are counted as skipped)",
		Run: func(c *Ctx) {
			c18Enumerate(c, 4, c18Seps)
			if c.Thorough() {
				c18Enumerate(c, 5, []string{" ", "\n", ""})
			}
			c.Sample("ab\n# c\n12")
			c.Sample("\"x\ny\" /* c\nd */ :=(")
		},
		Replay: func(c *Ctx, in string) {
			// offsets are recomputed by lexing expectations: replay checks internal consistency only
			toks := parser.LexToList("v", in)
			for _, t := range toks {
				if t.ID == parser.TokenEOF {
					continue
				}
				wl, wc := lineCol(in, t.Pos)
				if t.Lline != wl || t.Lpos != wc {
					c.Viol("wrong-position", fmt.Sprintf("token %q at offset %d reported line %d column %d, true line %d column %d", t.Val, t.Pos, t.Lline, t.Lpos, wl, wc), in)
				}
			}
		}})
	register(&Part{Prop: "C18", Name: "planted-errors", Quick: 8, Thor: 16,
		Desc: "after every prefix of <= 3 (thorough 4) filler statements/comments/multi-line strings: a stray ')' (parser error), `q := 1 + \"a\"` (runtime error) and two statements separated by a newline and a comment; oracle: reported line/column equal the recomputed ones, statement count exact",
		Rule: "all filler sequences up to the bound x 3 indentations x 3 plants; non-trivial = the planted error was reported as parser.Error / util.RuntimeError",
		Run: func(c *Ctx) {
			n := 3
			if c.Thorough() {
				n = 4
			}
			c18Planted(c, n)
			c.Sample("a := 1\n# c\n)")
		}})
}
