package main

import (
	"fmt"
	"runtime"
	"strings"

	"github.com/krotik/common/datautil"
	"github.com/krotik/ecal/engine/pool"
	"github.com/krotik/ecal/interpreter"
	"github.com/krotik/ecal/parser"
	"github.com/krotik/ecal/scope"
	"github.com/krotik/ecal/util"
)

// budgetDebugger gives every evaluation a deterministic horizon without any
// hook in the repository: baseRuntime.Eval calls VisitState on every node, the
// harness counts the visits and unwinds with a sentinel panic past the budget.
type budgetDebugger struct {
	util.ECALDebugger
	n, max int
	lines  []int
}

type budgetExceeded struct{}

func (b *budgetDebugger) VisitState(node *parser.ASTNode, vs parser.Scope, tid uint64) util.TraceableRuntimeError {
	b.n++
	if b.n > b.max {
		panic(budgetExceeded{})
	}
	return nil
}
func (b *budgetDebugger) VisitStepInState(node *parser.ASTNode, vs parser.Scope, tid uint64) util.TraceableRuntimeError {
	return nil
}
func (b *budgetDebugger) VisitStepOutState(node *parser.ASTNode, vs parser.Scope, tid uint64, soErr error) util.TraceableRuntimeError {
	return nil
}
func (b *budgetDebugger) SetLockingState(m map[string]uint64, l *datautil.RingBuffer) {}
func (b *budgetDebugger) SetThreadPool(tp *pool.ThreadPool)                           {}
func (b *budgetDebugger) RecordThreadFinished(tid uint64)                             {}

type evalOut struct {
	val      interface{}
	err      error  // parse, validation or runtime error
	stage    string // "parse", "validate", "eval"
	panicKey string
	panicMsg string
	budget   bool
	vs       parser.Scope
	log      []string
	ast      *parser.ASTNode
}

type evalOpts struct {
	setup   func(vs parser.Scope, erp *interpreter.ECALRuntimeProvider)
	budget  int
	locator util.ECALImportLocator
}

// evalECAL parses, validates and evaluates src on a fresh provider.
func evalECAL(src string, o evalOpts) (out evalOut) {
	logger := util.NewMemoryLogger(100)
	erp := interpreter.NewECALRuntimeProvider("v", o.locator, logger)
	erp.Cron.Stop()
	max := o.budget
	if max == 0 {
		max = 10000
	}
	erp.Debugger = &budgetDebugger{max: max}
	vs := scope.NewScope(scope.GlobalScope)
	out.vs = vs
	if o.setup != nil {
		o.setup(vs, erp)
	}
	defer func() {
		if r := recover(); r != nil {
			if _, ok := r.(budgetExceeded); ok {
				out.budget = true
				return
			}
			buf := make([]byte, 1<<16)
			buf = buf[:runtime.Stack(buf, false)]
			out.panicKey = panicClass(r) + "@" + innermostRepoFunc(string(buf))
			out.panicMsg = fmt.Sprintf("%v\n%s", r, trimStack(string(buf)))
		}
		out.log = logger.Slice()
	}()
	out.stage = "parse"
	ast, err := parser.ParseWithRuntime("v", src, erp)
	if err != nil {
		out.err = err
		return
	}
	out.ast = ast
	out.stage = "validate"
	if err := ast.Runtime.Validate(); err != nil {
		out.err = err
		return
	}
	out.stage = "eval"
	out.val, out.err = ast.Runtime.Eval(vs, make(map[string]interface{}), erp.NewThreadID())
	return
}

// hfunc adapts a Go closure to util.ECALFunction.
type hfunc struct {
	f func(args []interface{}) (interface{}, error)
}

func (h *hfunc) Run(instanceID string, vs parser.Scope, is map[string]interface{}, tid uint64, args []interface{}) (interface{}, error) {
	return h.f(args)
}
func (h *hfunc) DocString() (string, error) { return "harness function", nil }

func errType(err error) string {
	switch e := err.(type) {
	case nil:
		return ""
	case *util.RuntimeError:
		return fmt.Sprint(e.Type)
	case *util.RuntimeErrorWithDetail:
		return fmt.Sprint(e.Type)
	case *parser.Error:
		return "parse:" + fmt.Sprint(e.Type)
	}
	return strings.SplitN(err.Error(), ":", 2)[0]
}

// validateOnly parses with a runtime provider and validates (no evaluation).
func validateOnly(src string) error {
	erp := interpreter.NewECALRuntimeProvider("v", nil, nil)
	erp.Cron.Stop()
	ast, err := parser.ParseWithRuntime("v", src, erp)
	if err != nil {
		return err
	}
	return ast.Runtime.Validate()
}
