package main

import (
	"fmt"
	"runtime"
	"sort"
	"strings"

	"github.com/krotik/ecal/parser"
)

// ---------------------------------------------------------------------------
// C07 — parsing is total: an error or a well-formed tree, and nothing left running

func c07Alphabet(reduced bool) []string {
	var out []string
	out = append(out, "a", "1", `"s"`, "\n")
	// comments are tokens too (the parser attaches them as meta data): with content, empty, to the end of the line
	out = append(out, "/* c */", "/**/", "# c\n")
	var kw, sy []string
	for k := range parser.KeywordMap {
		kw = append(kw, k)
	}
	for k := range parser.SymbolMap {
		sy = append(sy, k)
	}
	sort.Strings(kw)
	sort.Strings(sy)
	if reduced {
		keep := map[string]bool{"if": true, "else": true, "for": true, "in": true, "func": true, "return": true, "try": true, "except": true,
			"finally": true, "sink": true, "kindmatch": true, "import": true, "as": true, "let": true, "mutex": true, "not": true, "and": true,
			"(": true, ")": true, "[": true, "]": true, "{": true, "}": true, ",": true, ";": true, ".": true, ":": true, ":=": true, "+": true, "-": true, "==": true}
		for _, k := range kw {
			if keep[k] {
				out = append(out, k)
			}
		}
		for _, k := range sy {
			if keep[k] {
				out = append(out, k)
			}
		}
		return out
	}
	out = append(out, kw...)
	out = append(out, sy...)
	return out
}

// lexerLeaked reports whether a goroutine of the lexer is left blocked.
func lexerLeaked(base int) bool {
	for i := 0; i < 4 && runtime.NumGoroutine() > base; i++ {
		runtime.Gosched()
	}
	if runtime.NumGoroutine() <= base {
		return false
	}
	buf := make([]byte, 1<<20)
	buf = buf[:runtime.Stack(buf, true)]
	for _, g := range strings.Split(string(buf), "\n\n") {
		if strings.Contains(g, "parser.(*lexer)") && strings.Contains(g, "chan send") {
			return true
		}
	}
	return false
}

var c07LeakBase = -1

func nilNode(n *parser.ASTNode, depth int) string {
	if n == nil {
		return "nil node"
	}
	if depth > 200 {
		return ""
	}
	for i, ch := range n.Children {
		if ch == nil {
			return fmt.Sprintf("nil child %d of %s node", i, n.Name)
		}
		if s := nilNode(ch, depth+1); s != "" {
			return s
		}
	}
	return ""
}

func c07Check(c *Ctx, src string, class string) {
	c.Begin(src)
	base := runtime.NumGoroutine()
	var ast *parser.ASTNode
	var err error
	if pk, pm := Guard(func() { ast, err = parser.Parse("v", src) }); pk != "" {
		c.Viol("parse-"+pk, fmt.Sprintf("Parse(%q) panics: %s", src, pm), src)
		return
	}
	if lexerLeaked(base) {
		kind := "after a failing parse"
		if err == nil {
			kind = "after a successful parse"
		}
		c.Viol("lexer-goroutine-left-running "+kind, fmt.Sprintf("Parse(%q) (error: %v) leaves its lexer goroutine blocked in a channel send", src, err), src)
	}
	switch {
	case err != nil && ast != nil:
		c.Viol("tree-and-error", fmt.Sprintf("Parse(%q) returns a tree and the error %v", src, err), src)
		return
	case err == nil && ast == nil:
		c.Viol("no-tree-no-error", fmt.Sprintf("Parse(%q) returns neither a tree nor an error", src), src)
		return
	case err != nil:
		if pe, ok := err.(*parser.Error); !ok || pe.Line < 1 || pe.Pos < 1 {
			key := "error-not-positioned"
			if ok && pe.Type == parser.ErrUnexpectedEnd {
				key = "error-not-positioned: unexpected end of input"
			}
			c.Viol(key, fmt.Sprintf("Parse(%q) returns the unpositioned error %v", src, err), src)
			return
		}
		c.Outcome("error")
		return
	}
	c.Nontrivial()
	c.Outcome("tree")
	if s := nilNode(ast, 0); s != "" {
		c.Viol("tree-with-nil-node", fmt.Sprintf("Parse(%q) returns a tree with a %s and no error", src, s), src)
		return
	}
	// the tree's consumers are the shape oracle
	if pk, pm := Guard(func() { parser.PrettyPrint(ast) }); pk != "" {
		c.Viol("prettyprint-"+pk, fmt.Sprintf("PrettyPrint of the tree of %q panics: %s", src, pm), src)
		return
	}
	// Validate with a runtime provider attached (evaluation of every accepted
	// sequence is part of C06's corpus)
	if pk, pm := Guard(func() {
		out := validateOnly(src)
		_ = out
	}); pk != "" {
		c.Viol("validate-"+pk, fmt.Sprintf("Validate of the tree of %q panics: %s", src, pm), src)
	}
}

func c07Tokens(c *Ctx, alpha []string, n int) {
	idx := make([]int, n)
	var sb strings.Builder
	for {
		if c.Stopped() {
			return
		}
		if c.Mine() {
			sb.Reset()
			for k, i := range idx {
				if k > 0 {
					sb.WriteByte(' ')
				}
				sb.WriteString(alpha[i])
			}
			c07Check(c, sb.String(), "tokens")
		}
		k := n - 1
		for k >= 0 {
			idx[k]++
			if idx[k] < len(alpha) {
				break
			}
			idx[k] = 0
			k--
		}
		if k < 0 {
			return
		}
	}
}

var c07Corpus = []string{
	"a := 1 + 2 * 3",
	"if a > 1 { b := 1 } elif a < 0 { b := 2 } else { b := 3 }",
	"for i in range(1, 3) { if i == 2 { break } ; log(i) }",
	"for [k, v] in {\"a\": 1} { log(k, v) }",
	"func f(a, b=1) { return a + b }\nx := f(1)",
	"try { raise(\"E\") } except \"E\" as e { log(e) } otherwise { x := 1 } finally { y := 2 }",
	"mutex m { a := a + 1 }",
	"sink s kindmatch [\"a.b\"], priority 1, { log(event) }",
	"import \"x\" as y\nz := y.v",
	"o := { \"a\": [1, 2, {\"b\": null}], \"f\": func() { return this.a } }\nr := o.a[2].b",
	"let x := not (a and b or c)",
	"s := \"a {{1 + 2}} b\" ; t := r\"raw\"",
	"x := a[1][2].b.c(1)(2)",
	"x := -1 ; y := +2 ; z := 5 % 2 // 1",
	"x := a like \"b\" and c hasprefix \"d\" or 1 in [1] and 2 notin [3]",
}

// c07BadLexemes: unclosed string, unclosed block comment, malformed identifier,
// bad escape sequence, lone quote, invalid UTF-8, malformed number.
var c07BadLexemes = []string{"\"abc", "/* c", "b@d", "\"\\x\"", "'", "\x80", "1a"}

func c07Mutations(c *Ctx, double bool) {
	for _, prog := range c07Corpus {
		toks := parser.LexToList("v", prog)
		var parts []string
		for _, t := range toks {
			if t.ID == parser.TokenEOF {
				continue
			}
			switch {
			case t.ID == parser.TokenSTRING && t.AllowEscapes:
				parts = append(parts, fmt.Sprintf("%q", t.Val))
			case t.ID == parser.TokenSTRING:
				parts = append(parts, "r\""+t.Val+"\"")
			default:
				parts = append(parts, t.Val)
			}
		}
		join := func(p []string) string { return strings.Join(p, " ") }
		mut := func(p []string, f func(q []string)) {
			// single mutations of p
			for i := range p {
				q := append(append([]string{}, p[:i]...), p[i+1:]...) // delete
				f(q)
				q = append(append(append([]string{}, p[:i+1]...), p[i]), p[i+1:]...) // duplicate
				f(q)
				if i+1 < len(p) {
					q = append([]string{}, p...)
					q[i], q[i+1] = q[i+1], q[i] // swap
					f(q)
				}
				for _, ins := range []string{")", "}", "]", ";", "{", "("} {
					q = append(append(append([]string{}, p[:i]...), ins), p[i:]...) // stray terminator
					f(q)
				}
				// a lexically invalid token in front of / instead of token i: the
				// lexer reports an error in the middle of whatever the parser is doing
				for _, ins := range c07BadLexemes {
					q = append(append(append([]string{}, p[:i]...), ins), p[i:]...)
					f(q)
					q = append(append(append([]string{}, p[:i]...), ins), p[i+1:]...)
					f(q)
				}
			}
			for _, ins := range c07BadLexemes {
				f(append(append([]string{}, p...), ins))
			}
		}
		mut(parts, func(q []string) {
			if c.Stopped() {
				return
			}
			if c.Mine() {
				c07Check(c, join(q), "mutation")
			}
			if double && len(q) <= 14 {
				mut(q, func(q2 []string) {
					if !c.Stopped() && c.Mine() {
						c07Check(c, join(q2), "mutation2")
					}
				})
			}
		})
	}
}

func c07Bytes(c *Ctx, thorough bool) {
	// all byte strings of length <= 2
	for a := 0; a < 256; a++ {
		if c.Mine() {
			c07Check(c, string([]byte{byte(a)}), "bytes")
		}
		for b := 0; b < 256; b++ {
			if c.Mine() {
				c07Check(c, string([]byte{byte(a), byte(b)}), "bytes")
			}
		}
	}
	alpha := []byte{0x00, 0x1b, 0x7f, 0x80, 0xc3, 0xa9, 0xff, '"', '\'', 'r', '#', '/', '*', '\\', '\n', '\r', '\t', ' ', 'a', '1', '.', '{', '}', '(', ')', '[', ']',
		':', '=', ',', ';', '-', '+', 'e', '<', '>', '!', '%', '_', '$'}
	n := 3
	if thorough {
		n = 4
	}
	for l := 3; l <= n; l++ {
		idx := make([]int, l)
		for {
			if c.Stopped() {
				return
			}
			if c.Mine() {
				b := make([]byte, l)
				for k, i := range idx {
					b[k] = alpha[i]
				}
				c07Check(c, string(b), "bytes")
			}
			k := l - 1
			for k >= 0 {
				idx[k]++
				if idx[k] < len(alpha) {
					break
				}
				idx[k] = 0
				k--
			}
			if k < 0 {
				break
			}
		}
	}
}

func init() {
	replay := func(c *Ctx, in string) { c07Check(c, in, "replay") }
	register(&Part{Prop: "C07", Name: "token-sequences", Quick: 16, Thor: 32, Replay: replay,
		Desc: "all token sequences of length <= 3 over every keyword and symbol of the lexer plus identifier, number, string, newline (~60 tokens) and of length 4 over a 34-token subset (thorough: length 4 over all, length 5 over the subset)",
		Rule: "odometer over the token alphabet; non-trivial = the sequence parses into a tree (which is then walked, pretty-printed, validated and evaluated under a step budget)",
		Run: func(c *Ctx) {
			full, red := c07Alphabet(false), c07Alphabet(true)
			for n := 1; n <= 3; n++ {
				c07Tokens(c, full, n)
			}
			if c.Thorough() {
				c07Tokens(c, full, 4)
				c07Tokens(c, red, 5)
			} else {
				c07Tokens(c, red, 4)
			}
			c.Extra("alphabet", len(full))
			c.Sample("a := 1 ; )")
			c.Sample("func a ( ) { ) ; 1 }")
		}})
	register(&Part{Prop: "C07", Name: "mutations", Quick: 8, Thor: 16, Replay: replay,
		Desc: "all single (thorough: and double) token deletions, duplications, adjacent swaps, stray bracket/terminator insertions and insertions / substitutions of 7 lexically invalid tokens (unclosed string, unclosed comment, malformed identifier, bad escape, lone quote, invalid UTF-8, malformed number) at every position of a 15-program corpus covering every statement kind",
		Rule: "all mutations enumerated; non-trivial = the mutant still parses",
		Run: func(c *Ctx) {
			c07Mutations(c, c.Thorough())
			c.Sample("if a > 1 { b := 1 } } elif a < 0 { b := 2 }")
		}})
	register(&Part{Prop: "C07", Name: "byte-strings", Quick: 8, Thor: 16, Replay: replay,
		Desc: "all byte strings of length <= 2 and all of length 3 (thorough 4) over 40 bytes including 0x00, 0x1b, 0x7f, invalid and valid UTF-8 lead/continuation bytes, quotes, r, #, /, *, backslash",
		Rule: "odometer over bytes; non-trivial = parses into a tree",
		Run: func(c *Ctx) {
			c07Bytes(c, c.Thorough())
			c.Sample("\"\\xff")
		}})
}
