package main

import (
	"fmt"
	"strings"

	"github.com/krotik/ecal/interpreter"
	"github.com/krotik/ecal/parser"
)

// ---------------------------------------------------------------------------
// C14 — string interpolation evaluates only the literal's own expressions, once

type c14Piece struct {
	src string // as written in the literal
	val string // after escape processing
}

var c14Pieces = []c14Piece{
	{"{{", "{{"}, {"}}", "}}"}, {"{", "{"}, {"}", "}"}, {"a", "a"}, {" ", " "}, {"x", "x"}, {"tick()", "tick()"}, {"1+1", "1+1"}, {`\n`, "\n"}, {`\"`, `"`},
	// a lone backslash: part of the text in a raw string (also right before the closing quote); in a quoted string it starts an escape
	{`\\`, `\`}, {`\`, `\`},
	// failing expressions whose error text carries the variable's content
	{"raise(x)", "raise(x)"}, {"x+1", "x+1"},
}

var c14Envs = []struct{ name, val string }{
	{"plain", "v"}, {"code", "{{tick()}}"}, {"self", "{{x}}"}, {"close", "}}"}, {"open", "{{"}, {"expr", "{{1+1}}"},
}

// c14Ref is the one-pass reference: left to right, substituted text is never
// rescanned. ok is false when the literal is outside the compared class
// (markers not well nested, or an expression the reference does not define).
func c14Ref(text string, x string) (res string, ok bool) {
	res, _, ok = c14RefTicks(text, x)
	return
}

// c14RefTicks also returns how often tick() is evaluated; the k-th evaluation
// of tick() yields 6+k, so an expression that is written twice must be
// evaluated twice (no reuse of an earlier occurrence's text).
func c14RefTicks(text string, x string) (res string, nticks int, ok bool) {
	var b strings.Builder
	rest := text
	for {
		i := strings.Index(rest, "{{")
		if i < 0 {
			if strings.Contains(rest, "}}") {
				return "", 0, false
			}
			b.WriteString(rest)
			return b.String(), nticks, true
		}
		if strings.Contains(rest[:i], "}}") {
			return "", 0, false
		}
		b.WriteString(rest[:i])
		rest = rest[i+2:]
		j := strings.Index(rest, "}}")
		if j < 0 {
			return "", 0, false
		}
		code := rest[:j]
		if strings.Contains(code, "{{") {
			return "", 0, false
		}
		switch strings.TrimSpace(code) {
		case "x":
			b.WriteString(x)
		case "tick()":
			nticks++
			fmt.Fprintf(&b, "%d", 6+nticks)
		case "1+1":
			b.WriteString("2")
		default:
			return "", 0, false
		}
		rest = rest[j+2:]
	}
}

func c14Check(c *Ctx, srcBody, valBody string, env int, raw bool) {
	x := c14Envs[env].val
	lit := `"` + srcBody + `"`
	if raw {
		lit = `r"` + srcBody + `"`
	}
	input := fmt.Sprintf("x=%q literal=%s", x, lit)
	c.Risky(input)
	ticks := 0
	out := evalECAL("res := "+lit, evalOpts{budget: 3000, setup: func(vs parser.Scope, erp *interpreter.ECALRuntimeProvider) {
		vs.SetValue("x", x)
		vs.SetValue("tick", &hfunc{func(args []interface{}) (interface{}, error) { ticks++; return float64(6 + ticks), nil }})
	}})
	if out.panicKey != "" {
		c.Viol("interpolation-"+out.panicKey, fmt.Sprintf("%s: panic: %s", input, out.panicMsg), input)
		return
	}
	if out.budget {
		c.Viol("interpolation-endless-loop", fmt.Sprintf("%s: evaluation did not finish within the step budget (3000 node visits)", input), input)
		return
	}
	if out.err != nil {
		if out.stage == "parse" {
			if raw {
				// a raw string body without a quote character is always a valid literal
				c.Viol("raw-string-rejected", fmt.Sprintf("%s: a raw string must come back untouched, the parser rejects it: %v", input, out.err), input)
				return
			}
			c.Skip() // not a valid literal
			return
		}
		c.Viol("interpolation-error", fmt.Sprintf("%s: evaluation fails with %v; a string literal must yield a string", input, out.err), input)
		return
	}
	v, _, _ := out.vs.GetValue("res")
	got, isStr := v.(string)
	if !isStr {
		c.Viol("interpolation-not-a-string", fmt.Sprintf("%s: result %v (%T)", input, v, v), input)
		return
	}
	if raw {
		c.Nontrivial()
		if got != srcBody || ticks != 0 {
			c.Viol("raw-string-changed", fmt.Sprintf("%s: raw string evaluated to %q (tick calls %d)", input, got, ticks), input)
		} else {
			c.Outcome("raw-untouched")
		}
		return
	}
	own := strings.Count(valBody, "tick()")
	if ticks > own {
		kind := "substituted text evaluated as code"
		c.Viol("data-became-code", fmt.Sprintf("%s: tick() was called %d time(s) but the literal itself contains it %d time(s): %s (result %q)", input, ticks, own, kind, got), input)
		return
	}
	if want, wantTicks, ok := c14RefTicks(valBody, x); ok {
		c.Nontrivial()
		if ticks != wantTicks && got == want {
			c.Viol("expression-not-evaluated-once-per-occurrence", fmt.Sprintf("%s: tick() is written %d time(s) inside {{ }} but was evaluated %d time(s)", input, wantTicks, ticks), input)
			return
		}
		if got != want {
			k := "one-pass-result-differs"
			if strings.Contains(x, "{{") || strings.Contains(x, "}}") {
				k = "substituted text rescanned"
			}
			c.Viol(k, fmt.Sprintf("%s: result %q, the one-pass reference gives %q", input, got, want), input)
			return
		}
		c.Outcome("equals-one-pass-reference")
	} else {
		c.Outcome("string")
	}
}

func c14Enumerate(c *Ctx, n int, envs []int, withRaw bool) {
	idx := make([]int, n)
	for {
		if c.Stopped() {
			return
		}
		var sb, vb strings.Builder
		hasQuote := false
		rawOnly := false
		for _, i := range idx {
			sb.WriteString(c14Pieces[i].src)
			vb.WriteString(c14Pieces[i].val)
			if c14Pieces[i].src == `\"` || c14Pieces[i].src == `\n` {
				hasQuote = true
			}
			if c14Pieces[i].src == `\` {
				rawOnly = true // in a quoted string it would fuse with the next piece into an escape
			}
		}
		for _, e := range envs {
			if !rawOnly && c.Mine() {
				c14Check(c, sb.String(), vb.String(), e, false)
			}
			if withRaw && !hasQuote && c.Mine() {
				c14Check(c, sb.String(), sb.String(), e, true)
			}
		}
		k := n - 1
		for k >= 0 {
			idx[k]++
			if idx[k] < len(c14Pieces) {
				break
			}
			idx[k] = 0
			k--
		}
		if k < 0 {
			return
		}
	}
}

func init() {
	register(&Part{Prop: "C14", Name: "literals", Quick: 16, Thor: 32,
		Desc: "all string literal bodies of <= 4 pieces (thorough 5; plus one more piece with x = \"v\" only) over {{{, }}, {, }, a, space, x, tick(), 1+1, \\n, \\\", raise(x), x+1} in quoted and raw form, with x bound in turn to \"v\", \"{{tick()}}\", \"{{x}}\", \"}}\", \"{{\", \"{{1+1}}\"; tick is a counting harness function; evaluation under a 3000-visit step budget",
		Rule: "odometer over piece sequences x environments x {quoted, raw}; non-trivial = the literal is in the class the one-pass reference defines (well nested markers, expressions x / tick() / 1+1) or is a raw string",
		Run: func(c *Ctx) {
			all := []int{0, 1, 2, 3, 4, 5}
			n := 4
			if c.Thorough() {
				n = 5
			}
			for l := 0; l <= n; l++ {
				c14Enumerate(c, l, all, true)
			}
			c14Enumerate(c, n+1, []int{0}, false)
			c.Sample(`x="{{tick()}}" literal="{{x}}" -> "{{tick()}}", tick not called`)
			c.Sample(`x="v" literal="}} {{" -> some string, no panic`)
		},
		Replay: func(c *Ctx, in string) {
			// x="..." literal=<lit>
			var x string
			i := strings.Index(in, " literal=")
			fmt.Sscanf(in[:i], "x=%q", &x)
			lit := in[i+9:]
			raw := strings.HasPrefix(lit, "r\"")
			body := strings.TrimSuffix(strings.TrimPrefix(strings.TrimPrefix(lit, "r"), "\""), "\"")
			val := strings.NewReplacer(`\n`, "\n", `\"`, `"`).Replace(body)
			for e := range c14Envs {
				if c14Envs[e].val == x {
					c14Check(c, body, val, e, raw)
				}
			}
		}})
}

// ---------------------------------------------------------------------------
// re-entrant literals: an expression inside the literal calls the function that
// contains the literal, so the same literal node is evaluated again while an
// evaluation of it is in progress (the same happens when two workers run one
// sink). Each evaluation must still produce the text of its own pieces.

var c14RecPieces = []string{"<", ">", " ", "{{n}}", "{{w(n - 1)}}"}

func c14RecRef(tpl []int, n int) string {
	if n == 0 {
		return "x"
	}
	var b strings.Builder
	for _, p := range tpl {
		switch c14RecPieces[p] {
		case "{{n}}":
			fmt.Fprintf(&b, "%d", n)
		case "{{w(n - 1)}}":
			b.WriteString(c14RecRef(tpl, n-1))
		default:
			b.WriteString(c14RecPieces[p])
		}
	}
	return b.String()
}

func init() {
	register(&Part{Prop: "C14", Name: "re-entrant-literal", Quick: 1, Thor: 1,
		Desc: "func w(n) { if n == 0 { return \"x\" } return LITERAL } for every LITERAL of 1-3 (thorough 1-4) pieces over {<, >, space, {{n}}, {{w(n - 1)}}} with at least one recursive piece, called with n = 0..3: the literal node is re-entered while one of its evaluations is in progress; the result must equal the recursive one-pass reference",
		Rule: "piece sequences x depths; non-trivial = depth >= 1",
		Run: func(c *Ctx) {
			maxLen := 3
			if c.Thorough() {
				maxLen = 4
			}
			var rec func(tpl []int)
			rec = func(tpl []int) {
				hasRec := false
				body := ""
				for _, p := range tpl {
					body += c14RecPieces[p]
					hasRec = hasRec || c14RecPieces[p] == "{{w(n - 1)}}"
				}
				if hasRec && c.Mine() {
					for n := 0; n <= 3; n++ {
						src := fmt.Sprintf("func w(n) {\n  if n == 0 {\n    return \"x\"\n  }\n  return \"%s\"\n}\nres := w(%d)", body, n)
						c.Begin(src)
						out := evalECAL(src, evalOpts{budget: 200000})
						if out.panicKey != "" || out.budget || out.err != nil {
							c.Viol("re-entrant literal fails", fmt.Sprintf("%s: %v %v budget=%v", src, out.panicKey, out.err, out.budget), src)
							break
						}
						v, _, _ := out.vs.GetValue("res")
						want := c14RecRef(tpl, n)
						if n > 0 {
							c.Nontrivial()
						}
						if fmt.Sprint(v) != want {
							c.Viol("re-entrant literal: wrong text", fmt.Sprintf("literal \"%s\" inside w(n), w(%d) = %q, expected %q (each evaluation of the literal must produce the text of its own pieces)", body, n, v, want), src)
							break
						}
						c.Outcome("matches-reference")
					}
				}
				if len(tpl) == maxLen {
					return
				}
				for p := range c14RecPieces {
					rec(append(append([]int{}, tpl...), p))
				}
			}
			rec(nil)
			c.Sample("func w(n) { if n == 0 { return \"x\" } return \"<{{w(n - 1)}}>\" }  w(2) == \"<<x>>\"")
		}})
}

// ---------------------------------------------------------------------------
// repeated expressions: literals assembled from WHOLE interpolation expressions
// (the piece alphabet above needs three pieces per expression, so two
// expressions do not fit its bound). The k-th evaluation of tick() yields 6+k:
// an expression written twice must be evaluated twice, left to right.

func init() {
	register(&Part{Prop: "C14", Name: "repeated-expressions", Quick: 1, Thor: 2,
		Desc: "every literal of <= 4 (thorough 5) pieces over {{{tick()}}, {{ tick()}}, {{x}}, {{1+1}}, a, space, -} for x in {v, {{tick()}}, {{x}}}: the result equals the one-pass reference in which the k-th evaluation of tick() yields 6+k, and tick() is evaluated exactly once per occurrence",
		Rule: "odometer over whole-expression pieces x environments; every case non-trivial",
		Run: func(c *Ctx) {
			pieces := []string{"{{tick()}}", "{{ tick()}}", "{{x}}", "{{1+1}}", "a", " ", "-"}
			n := 4
			if c.Thorough() {
				n = 5
			}
			for l := 1; l <= n; l++ {
				idx := make([]int, l)
				for {
					if c.Stopped() {
						return
					}
					if c.Mine() {
						var sb strings.Builder
						for _, i := range idx {
							sb.WriteString(pieces[i])
						}
						for _, e := range []int{0, 1, 2} {
							c14Check(c, sb.String(), sb.String(), e, false)
						}
					}
					k := l - 1
					for k >= 0 {
						idx[k]++
						if idx[k] < len(pieces) {
							break
						}
						idx[k] = 0
						k--
					}
					if k < 0 {
						break
					}
				}
			}
			c.Sample(`x="v" literal="{{tick()}}-{{tick()}}" == "7-8"`)
		}})
}

// ---------------------------------------------------------------------------
// escape sequences: "a quoted literal interprets its escape sequences" - byte,
// octal and unicode escapes next to interpolation.

func init() {
	register(&Part{Prop: "C14", Name: "escape-sequences", Quick: 1, Thor: 1,
		Desc: "every quoted literal of <= 3 (thorough 4) pieces over the escapes {\\xc3\\xa4, \\xff, \\x41, \\u00e4, \\U0001F600, \\101, \\377, \\t, \\r, \\\\, \\\", \\a} and {a, {{x}}, {{1+1}}}: the value is what Go's strconv.Unquote gives for the escapes, with the expressions substituted",
		Rule: "odometer over pieces x {x = v, x = {{1+1}}}; every case non-trivial",
		Run: func(c *Ctx) {
			pieces := []c14Piece{{`\xc3\xa4`, "\xc3\xa4"}, {`\xff`, "\xff"}, {`\x41`, "A"}, {`\u00e4`, "ä"}, {`ä`, "ä"}, {`\U0001F600`, "\U0001F600"}, {`\101`, "A"}, {`\377`, "\377"},
				{`\t`, "\t"}, {`\r`, "\r"}, {`\\`, `\`}, {`\"`, `"`}, {`\a`, "\a"}, {"a", "a"}, {"{{x}}", "{{x}}"}, {"{{1+1}}", "{{1+1}}"}}
			n := 3
			if c.Thorough() {
				n = 4
			}
			for l := 1; l <= n; l++ {
				idx := make([]int, l)
				for {
					if c.Stopped() {
						return
					}
					if c.Mine() {
						var sb, vb strings.Builder
						for _, i := range idx {
							sb.WriteString(pieces[i].src)
							vb.WriteString(pieces[i].val)
						}
						c14Check(c, sb.String(), vb.String(), 0, false)
						c14Check(c, sb.String(), vb.String(), 5, false)
					}
					k := l - 1
					for k >= 0 {
						idx[k]++
						if idx[k] < len(pieces) {
							break
						}
						idx[k] = 0
						k--
					}
					if k < 0 {
						break
					}
				}
			}
			c.Sample(`"\xc3\xa4{{x}}" evaluates to the bytes c3 a4 followed by the text of x`)
		}})
}

// ---------------------------------------------------------------------------
// every {{expr}} is an expression evaluated in the literal's own scope: a bare
// name is no exception. Differential oracle: in a literal whose first expression
// creates the variable y, replacing every {{y}} by {{y + 0}} (and by {{(y)}})
// must not change the result.

func init() {
	register(&Part{Prop: "C14", Name: "bare-names-are-expressions", Quick: 1, Thor: 1,
		Desc: "literals that start with {{y := 5}} (y is not defined outside) followed by <= 4 pieces over {{{y := y + 1}}, {{y}}, {{y}}!, -, {{x}}}: the literal with every {{y}} replaced by {{y + 0}} and by {{(y)}} must evaluate to the same text, and the literal evaluated twice in a row (loop) must give the same text both times as a fresh evaluation does",
		Rule: "odometer over pieces; non-trivial = the literal contains a bare {{y}}",
		Run: func(c *Ctx) {
			pieces := []string{"{{y := y + 1}}", "{{y}}", "{{y}}!", "-", "{{x}}"}
			eval := func(body string) (string, string) {
				src := "x := \"v\"\nres := \"" + body + "\""
				out := evalECAL(src, evalOpts{budget: 5000})
				if out.panicKey != "" || out.err != nil || out.budget {
					return "", fmt.Sprintf("%v %v budget=%v", out.panicKey, out.err, out.budget)
				}
				v, _, _ := out.vs.GetValue("res")
				return fmt.Sprint(v), ""
			}
			for l := 1; l <= 4; l++ {
				idx := make([]int, l)
				for {
					if c.Stopped() {
						return
					}
					if c.Mine() {
						body := "{{y := 5}}"
						for _, i := range idx {
							body += pieces[i]
						}
						c.Begin(body)
						if !strings.Contains(body, "{{y}}") {
							c.Skip()
						} else {
							c.Nontrivial()
							a, e1 := eval(body)
							b, e2 := eval(strings.Replace(body, "{{y}}", "{{y + 0}}", -1))
							d, e3 := eval(strings.Replace(body, "{{y}}", "{{(y)}}", -1))
							switch {
							case e1 != "" || e2 != "" || e3 != "":
								c.Viol("bare-name literal fails", fmt.Sprintf("%q: %s %s %s", body, e1, e2, e3), body)
							case a != b || a != d:
								c.Viol("a bare name inside {{ }} is not evaluated like an expression", fmt.Sprintf("literal %q evaluates to %q; with {{y + 0}} for {{y}}: %q; with {{(y)}}: %q", body, a, b, d), body)
							default:
								c.Outcome("same-text")
							}
						}
					}
					k := l - 1
					for k >= 0 {
						idx[k]++
						if idx[k] < len(pieces) {
							break
						}
						idx[k] = 0
						k--
					}
					if k < 0 {
						break
					}
				}
			}
			c.Sample(`"{{y := 5}}-{{y}}" == "{{y := 5}}-{{y + 0}}"`)
		}})
}
