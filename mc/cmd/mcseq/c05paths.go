package main

import (
	"fmt"
	"sort"
	"strconv"
	"strings"

	"github.com/krotik/ecal/scope"
)

// ---------------------------------------------------------------------------
// C05 — container paths through the scope API. Dotted names ("m.k.1.z") reach
// into nested lists and maps; the interpreter's assignment statement, the
// debugger's extract / inject commands and embedders all go through
// varsScope.GetValue / SetValue with such names. Reference model: plain Go
// navigation. Compared only where the model defines the outcome:
//   * a path that exists reads its value without error;
//   * writing to a path whose parent container exists and accepts the last
//     segment (any key for a map, an index in [-len, len) for a list) succeeds,
//     the path then reads the written value and every other existing path
//     keeps its value (frame condition);
//   * everything else may succeed or fail, but never panics, and a failing
//     write changes nothing.

func c05PathSetup() (map[string]interface{}, func() map[string]interface{}) {
	mk := func() map[string]interface{} {
		return map[string]interface{}{
			"m": map[interface{}]interface{}{"k": []interface{}{1.0, map[interface{}]interface{}{"z": 2.0}}, "n": 5.0, "a": map[interface{}]interface{}{"a": 6.0}},
			"l": []interface{}{10.0, []interface{}{20.0, 21.0}, map[interface{}]interface{}{"a": 30.0, "k": []interface{}{31.0}}},
			"s": 7.0,
		}
	}
	return mk(), mk
}

// refNav navigates the model; ok = the path exists.
func refNav(root interface{}, segs []string) (interface{}, bool) {
	cur := root
	for _, sg := range segs {
		switch c := cur.(type) {
		case map[interface{}]interface{}:
			v, ok := c[sg]
			if !ok {
				return nil, false
			}
			cur = v
		case []interface{}:
			i, err := strconv.Atoi(sg)
			if err != nil {
				return nil, false
			}
			if i < 0 {
				i += len(c)
			}
			if i < 0 || i >= len(c) {
				return nil, false
			}
			cur = c[i]
		default:
			return nil, false
		}
	}
	return cur, true
}

// refWritable: the parent exists and accepts the last segment.
func refWritable(root interface{}, segs []string) bool {
	parent, ok := refNav(root, segs[:len(segs)-1])
	if !ok {
		return false
	}
	last := segs[len(segs)-1]
	switch c := parent.(type) {
	case map[interface{}]interface{}:
		if _, err := strconv.Atoi(last); err == nil {
			return false // numeric-looking keys of string-keyed maps: left open
		}
		return true
	case []interface{}:
		i, err := strconv.Atoi(last)
		if err != nil {
			return false
		}
		if i < 0 {
			i += len(c)
		}
		return i >= 0 && i < len(c)
	}
	return false
}

func allExistingPaths(model map[string]interface{}) []string {
	var out []string
	var walk func(prefix string, v interface{})
	walk = func(prefix string, v interface{}) {
		out = append(out, prefix)
		switch c := v.(type) {
		case map[interface{}]interface{}:
			for k, e := range c {
				walk(prefix+"."+fmt.Sprint(k), e)
			}
		case []interface{}:
			for i, e := range c {
				walk(prefix+"."+fmt.Sprint(i), e)
			}
		}
	}
	for k, v := range model {
		walk(k, v)
	}
	sort.Strings(out)
	return out
}

func scalarString(v interface{}) string {
	switch v.(type) {
	case map[interface{}]interface{}, []interface{}:
		return "<container>"
	}
	return fmt.Sprint(v)
}

func init() {
	register(&Part{Prop: "C05", Name: "scope-container-paths", Quick: 2, Thor: 4,
		Desc: "varsScope.GetValue / SetValue with dotted container paths: every path of a root in {m (map), l (list), s (scalar), u (undefined)} followed by 1-3 (thorough 4) segments over {k, z, n, a, x, 0, 1, 2, -1, -3, 5} on a fixed nested structure of lists and maps, read and written; reference = plain Go navigation; frame condition over all 24 existing paths after every write",
		Rule: "all paths x {read, write}; non-trivial = the model defines the outcome (existing path / writable path)",
		Run: func(c *Ctx) {
			segsAlpha := []string{"k", "z", "n", "a", "x", "0", "1", "2", "-1", "-3", "5"}
			maxLen := 3
			if c.Thorough() {
				maxLen = 4
			}
			_, mk := c05PathSetup()
			fresh := func() (*scopeHandle, map[string]interface{}) {
				model := mk()
				vs := scope.NewScope("g")
				real := mk()
				for k, v := range real {
					vs.SetValue(k, v)
				}
				return &scopeHandle{vs.GetValue, vs.SetValue}, model
			}
			existing := allExistingPaths(mk())
			var rec func(segs []string)
			rec = func(segs []string) {
				if c.Stopped() {
					return
				}
				if len(segs) >= 2 && c.Mine() {
					path := strings.Join(segs, ".")
					// read
					h, model := fresh()
					c.Begin("read " + path)
					var got interface{}
					var err error
					if pk, pm := Guard(func() { got, _, err = h.get(path) }); pk != "" {
						c.Viol("scope-read-"+pk, "GetValue("+path+"): "+pm, "read "+path)
					} else if want, ok := refNav(model[segs[0]], segs[1:]); ok && model[segs[0]] != nil {
						c.Nontrivial()
						if err != nil || scalarString(got) != scalarString(want) {
							c.Viol("scope-read-differs", fmt.Sprintf("GetValue(%q) = %v / %v, the structure holds %v there", path, got, err, want), "read "+path)
						} else {
							c.Outcome("read-ok")
						}
					} else {
						c.Outcome("read-undefined-path")
					}
					// write
					h, model = fresh()
					c.Begin("write " + path)
					var werr error
					if pk, pm := Guard(func() { werr = h.set(path, 99.0) }); pk != "" {
						c.Viol("scope-write-"+pk, "SetValue("+path+"): "+pm, "write "+path)
						return
					}
					writable := model[segs[0]] != nil && refWritable(model[segs[0]], segs[1:])
					if writable {
						c.Nontrivial()
						if werr != nil {
							c.Viol("scope-write-rejected", fmt.Sprintf("SetValue(%q, 99) fails with %v although the parent container exists and accepts the last segment", path, werr), "write "+path)
							return
						}
						if v, _, err := h.get(path); err != nil || scalarString(v) != "99" {
							c.Viol("scope-write-then-read", fmt.Sprintf("after SetValue(%q, 99) GetValue gives %v / %v", path, v, err), "write "+path)
							return
						}
					}
					if writable || werr != nil {
						// frame: every other existing path keeps its value (after a
						// successful write: except the written path and what was below it)
						for _, p := range existing {
							if writable && (p == path || strings.HasPrefix(p, path+".") || samePlace(model, p, path)) {
								continue
							}
							ps := strings.Split(p, ".")
							want, _ := refNav(model[ps[0]], ps[1:])
							v, _, err := h.get(p)
							if err != nil || scalarString(v) != scalarString(want) {
								kind := "scope-write-changes-another-path"
								if werr != nil {
									kind = "scope-failing-write-changes-state"
								}
								c.Viol(kind, fmt.Sprintf("SetValue(%q, 99) (error: %v): afterwards GetValue(%q) = %v / %v, it held %v", path, werr, p, v, err, want), "write "+path)
								return
							}
						}
						c.Outcome("write-checked")
					} else {
						c.Outcome("write-left-open")
					}
				}
				if len(segs) == maxLen+1 {
					return
				}
				for _, sg := range segsAlpha {
					rec(append(append([]string{}, segs...), sg))
				}
			}
			for _, root := range []string{"m", "l", "s", "u"} {
				rec([]string{root})
			}
			c.Sample("SetValue(\"l.-1.k.0\", 99) then GetValue(\"l.2.k.0\") == 99 and all other paths unchanged")
		}})
}

type scopeHandle struct {
	get func(string) (interface{}, bool, error)
	set func(string, interface{}) error
}

// samePlace: p and q name the same element (negative and positive index).
func samePlace(model map[string]interface{}, p, q string) bool {
	norm := func(path string) string {
		segs := strings.Split(path, ".")
		cur := model[segs[0]]
		out := []string{segs[0]}
		for _, sg := range segs[1:] {
			switch c := cur.(type) {
			case []interface{}:
				i, err := strconv.Atoi(sg)
				if err != nil {
					return path
				}
				if i < 0 {
					i += len(c)
				}
				if i < 0 || i >= len(c) {
					return path
				}
				out = append(out, fmt.Sprint(i))
				cur = c[i]
			case map[interface{}]interface{}:
				out = append(out, sg)
				cur = c[sg]
			default:
				return path
			}
		}
		return strings.Join(out, ".")
	}
	np, nq := norm(p), norm(q)
	return np == nq || strings.HasPrefix(np, nq+".")
}
