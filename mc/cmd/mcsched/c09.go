package main

import (
	"fmt"
	"strings"

	"github.com/krotik/ecal/engine"
	"github.com/krotik/ecal/engine/pool"
	"github.com/krotik/ecal/zzverif/vsched"
)

// ---------------------------------------------------------------------------
// C09 — the thread pool runs every accepted task exactly once without outside help

type c09State struct {
	tp      *pool.ThreadPool
	runs    []int
	running int
	maxRun  int
	wg      vsched.WaitGroup
	notes   []string
	stage   string
}

type c09Task struct {
	s     *c09State
	i     int
	spawn int // index of a task to submit from inside Run (-1: none)
}

func (t *c09Task) Run(tid uint64) error {
	s := t.s
	s.runs[t.i]++
	s.running++
	if s.running > s.maxRun {
		s.maxRun = s.running
	}
	if t.spawn >= 0 {
		s.tp.AddTask(&c09Task{s, t.spawn, -1})
	}
	vsched.Yield() // the task takes time: other threads may run meanwhile
	s.running--
	s.wg.Done()
	return nil
}

// c09DepTask: the first task of a burst waits until the second one has started
type c09DepTask struct {
	c09Task
	started *vsched.WaitGroup
	second  bool
}

func (t *c09DepTask) Run(tid uint64) error {
	s := t.s
	s.runs[t.i]++
	if t.second {
		t.started.Done()
	} else {
		t.started.Wait()
	}
	s.wg.Done()
	return nil
}

func (t *c09Task) HandleError(e error) {}

func (s *c09State) note(f string, a ...interface{}) { s.notes = append(s.notes, fmt.Sprintf(f, a...)) }

func c09Check(s **c09State, n int) func(e *vsched.Exec) (string, *vsched.Violation) {
	return func(e *vsched.Exec) (string, *vsched.Violation) {
		st := *s
		obs := e.Outcome
		switch e.Outcome {
		case vsched.OutDeadlock, vsched.OutLivelock, vsched.OutHorizon:
			return obs + "@" + st.stage, &vsched.Violation{Key: e.Outcome + "@" + st.stage + ":" + e.BlockedKey(),
				Msg: fmt.Sprintf("%s in stage %q: %s (runs=%v)", e.Outcome, st.stage, e.Detail, st.runs)}
		case vsched.OutPanic, vsched.OutFault:
			return obs, &vsched.Violation{Key: e.Outcome, Msg: e.Detail}
		}
		for i, r := range st.runs {
			if r != 1 {
				return "runs", &vsched.Violation{Key: fmt.Sprintf("task-ran-%d-times", r),
					Msg: fmt.Sprintf("task %d ran %d times (runs=%v)", i, r, st.runs)}
			}
		}
		if len(st.notes) > 0 {
			return "note", &vsched.Violation{Key: strings.Join(st.notes, ";"), Msg: strings.Join(st.notes, "; ")}
		}
		return fmt.Sprintf("ok maxpar=%d", st.maxRun), nil
	}
}

func init() {
	// (a) n tasks on w workers; the driver blocks on its own wait group: nobody
	// calls WaitAll/JoinAll, so no outside help re-broadcasts.
	for _, w := range []int{1, 2, 3} {
		for _, n := range []int{1, 2, 3} {
			for _, burst := range []bool{false, true} {
				w, n, burst := w, n, burst
				if n == 1 && burst {
					continue
				}
				mode := "single"
				if burst {
					mode = "burst"
				}
				q, t := 2, 3
				if w*n > 2 {
					q, t = 1, 2
				}
				if w*n > 4 {
					q, t = 1, 2
				}
				if w == 3 && n == 3 {
					q = -1
				}
				register(&Scenario{Prop: "C09", Name: fmt.Sprintf("submit-w%d-n%d-%s", w, n, mode), Quick: q, Thor: t,
					Desc: fmt.Sprintf("%d workers, %d tasks submitted (%s), driver waits on its own wait group only", w, n, mode),
					Make: func() (func(), func(e *vsched.Exec) (string, *vsched.Violation)) {
						var s *c09State
						body := func() {
							s = &c09State{tp: pool.NewThreadPool(), runs: make([]int, n), stage: "start"}
							s.tp.SetWorkerCount(w, false)
							s.stage = "submit"
							if burst {
								s.wg.Add(n)
								for i := 0; i < n; i++ {
									s.tp.AddTask(&c09Task{s, i, -1})
								}
								s.wg.Wait()
							} else {
								for i := 0; i < n; i++ {
									s.wg.Add(1)
									s.tp.AddTask(&c09Task{s, i, -1})
									s.wg.Wait()
								}
							}
							s.stage = "done"
							vsched.End()
						}
						return body, c09Check(&s, n)
					}})
			}
		}
	}
	// (a2) a burst of two tasks of which the first waits for the second to have
	// started (legal with two or more workers): the second task must be started by
	// an idle worker while the first is still running - one wake-up per task, not
	// one per burst. Nobody calls WaitAll/JoinAll/SetWorkerCount afterwards.
	for _, w := range []int{2, 3} {
		for _, pre := range []bool{false, true} {
			w, pre := w, pre
			name := fmt.Sprintf("dependent-burst-w%d", w)
			desc := fmt.Sprintf("%d workers, two tasks submitted back to back, the first waits until the second has started; driver waits on its own wait group only", w)
			if pre {
				name += "-idle"
				desc += "; the workers are all asleep in the idle task before the burst"
			}
			q, t := 2, 3
			if w == 3 {
				q, t = 1, 2
			}
			register(&Scenario{Prop: "C09", Name: name, Quick: q, Thor: t,
				Desc: desc,
				Make: func() (func(), func(e *vsched.Exec) (string, *vsched.Violation)) {
					var s *c09State
					body := func() {
						s = &c09State{tp: pool.NewThreadPool(), runs: make([]int, 2), stage: "start"}
						s.tp.SetWorkerCount(w, false)
						if pre {
							vsched.Quiesce()
						}
						s.stage = "submit"
						started := &vsched.WaitGroup{}
						started.Add(1)
						s.wg.Add(2)
						s.tp.AddTask(&c09DepTask{c09Task{s, 0, -1}, started, false})
						s.tp.AddTask(&c09DepTask{c09Task{s, 1, -1}, started, true})
						s.wg.Wait()
						s.stage = "done"
						vsched.End()
					}
					return body, c09Check(&s, 2)
				}})
		}
	}
	// (b) WaitAll returns only when nothing is queued or running
	for _, w := range []int{1, 2} {
		for _, n := range []int{1, 2, 3} {
			w, n := w, n
			q, t := 2, 3
			if w*n > 2 {
				q, t = 1, 2
			}
			register(&Scenario{Prop: "C09", Name: fmt.Sprintf("waitall-w%d-n%d", w, n), Quick: q, Thor: t,
				Desc: fmt.Sprintf("%d workers, %d tasks, WaitAll must return only when nothing is queued or running", w, n),
				Make: func() (func(), func(e *vsched.Exec) (string, *vsched.Violation)) {
					var s *c09State
					body := func() {
						s = &c09State{tp: pool.NewThreadPool(), runs: make([]int, n), stage: "start"}
						s.tp.SetWorkerCount(w, false)
						s.stage = "submit"
						s.wg.Add(n)
						for i := 0; i < n; i++ {
							s.tp.AddTask(&c09Task{s, i, -1})
						}
						s.stage = "waitall"
						s.tp.WaitAll()
						if s.running != 0 {
							s.note("WaitAll returned while %d task(s) running", s.running)
						}
						for i, r := range s.runs {
							if r == 0 {
								s.note("WaitAll returned while task %d still queued", i)
							}
						}
						s.stage = "done"
						vsched.End()
					}
					return body, func(e *vsched.Exec) (string, *vsched.Violation) {
						// tasks may legitimately not have run when WaitAll hangs: reported as deadlock
						if e.Outcome == vsched.OutOK && len(s.notes) > 0 {
							return "note", &vsched.Violation{Key: "waitall-early:" + strings.Join(s.notes, ";"), Msg: strings.Join(s.notes, "; ")}
						}
						return c09Check(&s, n)(e)
					}
				}})
		}
	}
	// (c) JoinAll processes all queued tasks (one of which submits another) and leaves zero workers
	for _, w := range []int{1, 2} {
		for _, k := range []int{1, 2} {
			w, k := w, k
			q, t := 1, 2
			register(&Scenario{Prop: "C09", Name: fmt.Sprintf("joinall-w%d-k%d", w, k), Quick: q, Thor: t,
				Desc: fmt.Sprintf("%d workers, %d queued tasks (the first submits one more), then JoinAll", w, k),
				Make: func() (func(), func(e *vsched.Exec) (string, *vsched.Violation)) {
					var s *c09State
					body := func() {
						s = &c09State{tp: pool.NewThreadPool(), runs: make([]int, k+1), stage: "start"}
						s.tp.SetWorkerCount(w, false)
						s.stage = "submit"
						s.wg.Add(k + 1)
						for i := 0; i < k; i++ {
							sp := -1
							if i == 0 {
								sp = k
							}
							s.tp.AddTask(&c09Task{s, i, sp})
						}
						s.stage = "joinall"
						s.tp.JoinAll()
						if c := s.tp.WorkerCount(); c != 0 {
							s.note("JoinAll left %d workers", c)
						}
						if s.running != 0 {
							s.note("JoinAll returned while a task is running")
						}
						s.stage = "done"
					}
					return body, c09Check(&s, k+1)
				}})
		}
	}
	// (d) resizing while tasks arrive; the waiting call must converge
	type step struct {
		count int
		wait  bool
	}
	resize := map[string][]step{
		"3-2-1w": {{3, false}, {2, false}, {1, true}},
		"1-3":    {{1, false}, {3, false}},
		"2-0w-2": {{2, false}, {0, true}, {2, false}},
		"2-1w":   {{2, false}, {1, true}},
		"3-1-2w": {{3, false}, {1, false}, {2, true}},
		// a negative count means zero workers
		"2-neg1w": {{2, false}, {-1, true}},
		"1-neg5-1w": {{1, false}, {-5, false}, {1, true}},
	}
	for _, name := range []string{"2-1w", "1-3", "2-0w-2", "3-2-1w", "3-1-2w", "2-neg1w", "1-neg5-1w"} {
		steps := resize[name]
		for _, n := range []int{0, 1} {
			name, n := name, n
			q, t := 1, 2
			if len(steps) > 2 && steps[0].count == 3 {
				q = 1
			}
			register(&Scenario{Prop: "C09", Name: fmt.Sprintf("resize-%s-n%d", name, n), Quick: q, Thor: t,
				Desc: fmt.Sprintf("SetWorkerCount sequence %s (w = waiting call) with %d task(s) arriving from a second thread", name, n),
				Make: func() (func(), func(e *vsched.Exec) (string, *vsched.Violation)) {
					var s *c09State
					body := func() {
						s = &c09State{tp: pool.NewThreadPool(), runs: make([]int, n), stage: "start"}
						var fin vsched.WaitGroup
						last := steps[len(steps)-1].count
						if last < 0 {
							last = 0
						}
						s.tp.SetWorkerCount(steps[0].count, false)
						if n > 0 {
							fin.Add(1)
							s.wg.Add(n)
							vsched.GoNamed("submitter", func() {
								for i := 0; i < n; i++ {
									s.tp.AddTask(&c09Task{s, i, -1})
								}
								fin.Done()
							})
						}
						for i, st := range steps[1:] {
							s.stage = fmt.Sprintf("resize%d", i+1)
							s.tp.SetWorkerCount(st.count, st.wait)
							if st.wait {
								want := st.count
								if want < 0 {
									want = 0
								}
								if c := s.tp.WorkerCount(); c != want {
									s.note("waiting SetWorkerCount(%d) returned with %d workers", st.count, c)
								}
							}
						}
						fin.Wait()
						if last > 0 {
							// while a worker exists every task must get executed without help
							s.stage = "tasks"
							s.wg.Wait()
						}
						s.stage = "quiesce"
						// let killed workers finish dying, then the count must be the requested one
						for i := 0; i < 3; i++ {
							vsched.Sleep(1)
						}
						if c := s.tp.WorkerCount(); c != last {
							s.note("worker count converged to %d, requested %d", c, last)
						}
						s.stage = "done"
						vsched.End()
					}
					return body, func(e *vsched.Exec) (string, *vsched.Violation) {
						if last := steps[len(steps)-1].count; last <= 0 {
							// tasks need not run with zero workers
							for i := range s.runs {
								if s.runs[i] == 0 {
									s.runs[i] = 1
								}
							}
						}
						return c09Check(&s, n)(e)
					}
				}})
		}
	}
}

// (e) the queue-is-filling-up notification must not disturb task execution
func init() {
	for _, w := range []int{1, 2} {
		w := w
		register(&Scenario{Prop: "C09", Name: fmt.Sprintf("toomany-w%d", w), Quick: 1, Thor: 2,
			Desc: fmt.Sprintf("%d worker(s), TooManyThreshold 1 with a counting callback, two bursts of 2 tasks: every task runs exactly once, the callback fires at least once per burst that fills the queue and never more often than tasks were added", w),
			Make: func() (func(), func(e *vsched.Exec) (string, *vsched.Violation)) {
				var s *c09State
				calls := 0
				body := func() {
					calls = 0
					s = &c09State{tp: pool.NewThreadPool(), runs: make([]int, 4), stage: "start"}
					s.tp.TooManyThreshold = 1
					s.tp.TooManyCallback = func() { calls++ }
					s.tp.SetWorkerCount(w, false)
					// a second thread waits for idleness while the bursts arrive (WaitAll and
					// AddTask take the pool's locks in their own orders)
					var waiter vsched.WaitGroup
					waiter.Add(1)
					vsched.GoNamed("waiter", func() {
						s.tp.WaitAll()
						waiter.Done()
					})
					for b := 0; b < 2; b++ {
						s.stage = fmt.Sprintf("burst%d", b)
						s.wg.Add(2)
						s.tp.AddTask(&c09Task{s, 2 * b, -1})
						s.tp.AddTask(&c09Task{s, 2*b + 1, -1})
						s.wg.Wait()
					}
					if calls < 1 || calls > 4 {
						s.note("queue-filling callback fired %d times for 4 tasks with threshold 1", calls)
					}
					s.stage = "waiter"
					waiter.Wait()
					s.stage = "done"
					vsched.End()
				}
				return body, c09Check(&s, 4)
			}})
	}
}

// (f) shutting down while events still arrive: an event is either refused or,
// once accepted, processed before Finish returns (joining processes all queued
// tasks and then leaves zero workers)
func init() {
	for _, w := range []int{1, 2} {
		w := w
		register(&Scenario{Prop: "C09", Name: fmt.Sprintf("finish-vs-addevent-w%d", w), Quick: 2, Thor: 3, FreeQuick: 2, FreeThor: 3,
			Desc: fmt.Sprintf("processor with %d worker(s) and one rule: Finish() in one thread while another thread adds an event; an accepted event runs exactly once before Finish returns, Finish returns, zero workers are left", w),
			Make: func() (func(), func(e *vsched.Exec) (string, *vsched.Violation)) {
				var probs []string
				outcome := ""
				body := func() {
					probs = nil
					runs := 0
					proc := engine.NewProcessor(w)
					proc.AddRule(&engine.Rule{Name: "r", KindMatch: []string{"k"}, ScopeMatch: []string{},
						Action: func(p engine.Processor, m engine.Monitor, e *engine.Event, tid uint64) error {
							runs++
							return nil
						}})
					proc.Start()
					accepted := false
					var wg vsched.WaitGroup
					wg.Add(1)
					vsched.GoNamed("adder", func() {
						m, err := proc.AddEvent(engine.NewEvent("e", []string{"k"}, nil), nil)
						accepted = err == nil && m != nil
						wg.Done()
					})
					proc.Finish()
					runsAtFinish := runs
					wg.Wait()
					queued := fmt.Sprint(proc.ThreadPool().State()["TaskQueueSize"])
					if accepted {
						outcome = "accepted"
						_ = runsAtFinish
						switch {
						case runs == 1 && queued == "0":
							outcome = "accepted and processed"
						case runs == 0 && queued == "1":
							// queued after the last worker had gone: the pool had no worker
							// any more when the task arrived, it is kept, not dropped
							outcome = "accepted after the pool had stopped (still queued)"
						default:
							probs = append(probs, fmt.Sprintf("an event accepted while the processor was finishing ran %d time(s), %s task(s) left in the queue", runs, queued))
						}
					} else {
						outcome = "refused"
						if runs != 0 {
							probs = append(probs, "a refused event was processed")
						}
					}
					if s := proc.Status(); s != "Stopped" {
						probs = append(probs, "processor status after Finish: "+s)
					}
					vsched.End()
				}
				chk := c15Check(func() []string { return probs })
				return body, func(e *vsched.Exec) (string, *vsched.Violation) {
					o, v := chk(e)
					return o + " " + outcome, v
				}
			}})
	}
}
