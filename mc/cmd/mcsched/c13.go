package main

import (
	"fmt"
	"sort"
	"strings"

	"github.com/krotik/ecal/parser"
	"github.com/krotik/ecal/util"
	"github.com/krotik/ecal/zzverif/vsched"
)

// ---------------------------------------------------------------------------
// C13 — parsing is a pure, re-entrant function of its input

var c13Texts = map[string]string{
	// fail on their very first token (error paths that run before anything was set up)
	"eoi":     "a := 1 +", // ends prematurely: the error has no position, only a source
	"lexerr":  "@ a := 1",
	"lexerr2": "\"abc",
	"if":      "if a { b }",
	"ifelse":  "if a { b } elif c { d } else { e }",
	"for":     "for a in b { c }",
	"maplit":  "x := {1:2}",
	"nestmap": `{"a":{"b":1}}`,
	"ifmap":   "if a { x := {1:2} }",
	"err":     "f(",
	"plain":   "a := 1 + 2 * f(3)",
	"interp":  `x := "{{if a { 1 } }}"`,
}

type idGetter interface{ VerifInstanceID() string }

func c13Render(ast *parser.ASTNode, err error) string {
	if err != nil {
		return "ERR " + err.Error()
	}
	return ast.String()
}

func collectIDs(n *parser.ASTNode, out *[]string) {
	if n == nil {
		return
	}
	if g, ok := n.Runtime.(idGetter); ok {
		*out = append(*out, g.VerifInstanceID())
	}
	for _, c := range n.Children {
		collectIDs(c, out)
	}
}

// memLocator resolves imports from memory.
type memLocator struct{ files map[string]string }

func (m *memLocator) Resolve(path string) (string, error) {
	if s, ok := m.files[path]; ok {
		return s, nil
	}
	return "", fmt.Errorf("not found: %s", path)
}

var _ util.ECALImportLocator = &memLocator{}

type c13State struct {
	got   []string
	want  []string
	post  []string
	ids   [][]string
	evals []string
}

func init() {
	type sc struct {
		name    string
		texts   []string
		withRT  bool
		q, t    int
		evalToo bool
	}
	var scs []sc
	pairs := [][2]string{{"if", "maplit"}, {"if", "if"}, {"for", "nestmap"}, {"if", "for"}, {"ifmap", "ifmap"}, {"ifelse", "maplit"},
		{"err", "maplit"}, {"plain", "plain"}, {"maplit", "nestmap"}, {"if", "err"}}
	for _, p := range pairs {
		scs = append(scs, sc{"parse-" + p[0] + "+" + p[1], []string{p[0], p[1]}, false, 2, 3, false})
	}
	for _, p := range [][2]string{{"if", "maplit"}, {"plain", "plain"}, {"for", "ifmap"}} {
		scs = append(scs, sc{"parsert-" + p[0] + "+" + p[1], []string{p[0], p[1]}, true, 2, 2, false})
	}
	scs = append(scs, sc{"parse-if+maplit+for", []string{"if", "maplit", "for"}, false, 1, 2, false})
	scs = append(scs, sc{"parse-if+if+nestmap", []string{"if", "if", "nestmap"}, false, 1, 2, false})
	// parses that fail on their first token (in the sequential phase and again concurrently) next to valid ones
	scs = append(scs, sc{"parse-eoi+eoi", []string{"eoi", "eoi"}, false, 2, 3, false})
	scs = append(scs, sc{"parse-eoi+err+eoi", []string{"eoi", "err", "eoi"}, false, 1, 2, false})
	scs = append(scs, sc{"parse-lexerr+if+maplit", []string{"lexerr", "if", "maplit"}, false, 1, 2, false})
	scs = append(scs, sc{"parsert-lexerr2+for+ifmap", []string{"lexerr2", "for", "ifmap"}, true, 1, 2, false})
	scs = append(scs, sc{"eval-interp+maplit", []string{"interp", "maplit"}, true, 1, 2, true})
	scs = append(scs, sc{"eval-interp+interp", []string{"interp", "interp"}, true, 1, 2, true})
	for _, c := range scs {
		c := c
		register(&Scenario{Prop: "C13", Name: c.name, Quick: c.q, Thor: c.t, Isolate: true,
			Desc: fmt.Sprintf("%d threads parse %v concurrently (runtime provider attached: %v, evaluated: %v); every result must equal the sequential result, later sequential parses must still work", len(c.texts), c.texts, c.withRT, c.evalToo),
			Make: func() (func(), func(e *vsched.Exec) (string, *vsched.Violation)) {
				var s *c13State
				body := func() {
					n := len(c.texts)
					s = &c13State{got: make([]string, n), want: make([]string, n), post: make([]string, n), ids: make([][]string, n), evals: make([]string, n)}
					var envs []*ienv
					for i := 0; i < n; i++ {
						if c.withRT {
							envs = append(envs, newEnv(1))
						} else {
							envs = append(envs, nil)
						}
					}
					parse := func(i int) (*parser.ASTNode, error) {
						if c.withRT {
							return parser.ParseWithRuntime(fmt.Sprintf("t%d", i), c13Texts[c.texts[i]], envs[i].erp)
						}
						// every parse has its own source name: an error must name the source it belongs to
						return parser.Parse(fmt.Sprintf("t%d", i), c13Texts[c.texts[i]])
					}
					// sequential reference first (single thread: no scheduling points)
					for i := range c.texts {
						a, err := parse(i)
						s.want[i] = c13Render(a, err)
					}
					run := func(i int) {
						a, err := parse(i)
						s.got[i] = c13Render(a, err)
						if err == nil {
							collectIDs(a, &s.ids[i])
							if c.evalToo {
								if ve := a.Runtime.Validate(); ve != nil {
									s.evals[i] = "validate: " + ve.Error()
									return
								}
								_, e2 := a.Runtime.Eval(envs[i].vs, make(map[string]interface{}), envs[i].erp.NewThreadID())
								v, _, _ := envs[i].vs.GetValue("x")
								s.evals[i] = fmt.Sprintf("%v/%v", v, errString(e2))
							}
						}
					}
					var wg vsched.WaitGroup
					for i := 1; i < n; i++ {
						i := i
						wg.Add(1)
						vsched.GoNamed(fmt.Sprintf("P%d", i), func() { run(i); wg.Done() })
					}
					run(0)
					wg.Wait()
					for i := range c.texts {
						a, err := parse(i)
						s.post[i] = c13Render(a, err)
					}
				}
				check := func(e *vsched.Exec) (string, *vsched.Violation) {
					switch e.Outcome {
					case vsched.OutDeadlock, vsched.OutLivelock, vsched.OutHorizon:
						return e.Outcome, &vsched.Violation{Key: e.Outcome + ":" + e.BlockedKey(), Msg: e.Outcome + ": " + e.Detail}
					case vsched.OutPanic:
						return "panic", &vsched.Violation{Key: "panic:" + firstLineOf(e.Detail), Msg: e.Detail + "\n" + e.PanicStk}
					case vsched.OutFault:
						return "fault", &vsched.Violation{Key: "fault:" + e.Detail, Msg: e.Detail}
					}
					var probs []string
					for i := range s.want {
						if s.got[i] != s.want[i] {
							probs = append(probs, fmt.Sprintf("concurrent parse of %q differs from the sequential result", c13Texts[c.texts[i]]))
						}
						if s.post[i] != s.want[i] {
							probs = append(probs, fmt.Sprintf("lasting corruption: later sequential parse of %q differs", c13Texts[c.texts[i]]))
						}
					}
					seen := map[string]bool{}
					for _, l := range s.ids {
						for _, id := range l {
							if seen[id] {
								probs = append(probs, "duplicate runtime component instance id")
							}
							seen[id] = true
						}
					}
					if c.evalToo {
						for i := 1; i < len(s.evals); i++ {
							if c.texts[i] == c.texts[0] && s.evals[i] != s.evals[0] {
								probs = append(probs, "evaluation results differ: "+s.evals[0]+" vs "+s.evals[i])
							}
						}
					}
					for _, r := range e.Races {
						probs = append(probs, "data race: "+r)
					}
					if len(probs) > 0 {
						sort.Strings(probs)
						uniq := probs[:1]
						for _, p := range probs[1:] {
							if p != uniq[len(uniq)-1] {
								uniq = append(uniq, p)
							}
						}
						return "wrong", &vsched.Violation{Key: uniq[0], Msg: strings.Join(uniq, "; ")}
					}
					return "ok", nil
				}
				return body, check
			}})
	}
}
