package main

import (
	"fmt"
	"sort"
	"strings"

	"github.com/krotik/ecal/engine"
	"github.com/krotik/ecal/zzverif/vsched"
)

// ---------------------------------------------------------------------------
// C02 — waiting on an event returns after its whole cascade, with exactly its errors

// cnode is one event of a cascade shape.
type cnode struct {
	name     string
	children []*cnode
	prio     int  // priority of the child monitor carrying this event
	fail     bool // rule 1 fails (after having added the children)
	fail2    bool // a second rule on this event exists and fails
	two      bool // a second rule (priority 1) exists
	norule   bool // no rule matches this event's kind (skipped child)
}

type cshape struct {
	name string
	root func() *cnode
	fofe bool // fail-on-first-error
}

// c02LowThreshold lowers the pool's too-many-tasks threshold in c02Make.
var c02LowThreshold bool

func n(name string, ch ...*cnode) *cnode { return &cnode{name: name, children: ch} }

var c02Shapes = []cshape{
	{"leaf", func() *cnode { return n("r") }, false},
	{"fan2", func() *cnode { return n("r", n("a"), n("b")) }, false},
	{"depth3", func() *cnode { return n("r", n("a", n("b"))) }, false},
	{"skipchild", func() *cnode { x := n("x"); x.norule = true; return n("r", n("a"), x) }, false},
	{"failroot-with-child", func() *cnode { r := n("r", n("a")); r.fail = true; return r }, false},
	{"failleaf", func() *cnode { a := n("a"); a.fail = true; return n("r", a) }, false},
	{"tworules-firstfails", func() *cnode { r := n("r", n("a")); r.fail = true; r.two = true; return r }, false},
	{"tworules-firstfails-fofe", func() *cnode { r := n("r", n("a")); r.fail = true; r.two = true; return r }, true},
	{"tworules-bothfail", func() *cnode { r := n("r"); r.fail = true; r.two = true; r.fail2 = true; return r }, false},
	{"nontriggering-root", func() *cnode { r := n("r"); r.norule = true; return r }, false},
	{"fan2-prio", func() *cnode { a, b := n("a"), n("b"); a.prio = 2; b.prio = 1; return n("r", a, b) }, false},
	{"fan2-depth", func() *cnode { return n("r", n("a", n("c")), n("b")) }, false},
	// both children fail: on two workers the two failures are recorded at the same time
	{"fan2-bothfail", func() *cnode { a, b := n("a"), n("b"); a.fail = true; b.fail = true; return n("r", a, b) }, false},
}

type c02Casc struct {
	id       int
	root     *cnode
	rm       *engine.RootMonitor
	started  map[string]int
	finished map[string]int
	handler  int
	monitors []engine.Monitor
	returned bool
	retErr   string
	atReturn []string // problems observed at the instant AddEventAndWait returned
	resNil   bool
}

type c02State struct {
	proc  engine.Processor
	cascs []*c02Casc
	fofe  bool
	notes []string
}

func (s *c02State) kind(c *c02Casc, nd *cnode) []string {
	return []string{fmt.Sprintf("c%d", c.id), nd.name}
}

func (s *c02State) addRules(c *c02Casc, nd *cnode) {
	if !nd.norule {
		mk := func(rname string, prio int, fail bool, addChildren bool) {
			nd := nd
			if err := s.proc.AddRule(&engine.Rule{Name: rname, KindMatch: []string{fmt.Sprintf("c%d.%s", c.id, nd.name)},
				Priority: prio, ScopeMatch: []string{},
				Action: func(p engine.Processor, m engine.Monitor, e *engine.Event, tid uint64) error {
					c.started[rname]++
					if addChildren {
						for _, ch := range nd.children {
							cm := m.NewChildMonitor(ch.prio)
							c.monitors = append(c.monitors, cm)
							p.AddEvent(engine.NewEvent(fmt.Sprintf("ev-c%d-%s", c.id, ch.name), s.kind(c, ch), nil), cm)
						}
					}
					vsched.Yield()
					c.finished[rname]++
					if fail {
						return fmt.Errorf("fail-%s", rname)
					}
					return nil
				}}); err != nil {
				s.notes = append(s.notes, "AddRule: "+err.Error())
				vsched.Logf("AddRule: %v", err)
			}
		}
		mk(fmt.Sprintf("c%d-%s-1", c.id, nd.name), 0, nd.fail, true)
		if nd.two {
			mk(fmt.Sprintf("c%d-%s-2", c.id, nd.name), 1, nd.fail2, false)
		}
	}
	for _, ch := range nd.children {
		s.addRules(c, ch)
	}
}

// expected computes which rules must run and which errors must be reported.
func (s *c02State) expected(c *c02Casc, nd *cnode, run map[string]bool, errs map[string][]string) {
	if nd.norule {
		return
	}
	r1 := fmt.Sprintf("c%d-%s-1", c.id, nd.name)
	r2 := fmt.Sprintf("c%d-%s-2", c.id, nd.name)
	ev := fmt.Sprintf("ev-c%d-%s", c.id, nd.name)
	run[r1] = true
	if nd.fail {
		errs[ev] = append(errs[ev], r1)
	}
	if nd.two && !(s.fofe && nd.fail) {
		run[r2] = true
		if nd.fail2 {
			errs[ev] = append(errs[ev], r2)
		}
	}
	for _, ch := range nd.children {
		s.expected(c, ch, run, errs)
	}
}

func (s *c02State) runCascade(c *c02Casc) {
	c.rm = s.proc.NewRootMonitor(nil, nil)
	c.rm.SetFinishHandler(func(p engine.Processor) { c.handler++ })
	c.monitors = append(c.monitors, c.rm)
	ev := engine.NewEvent(fmt.Sprintf("ev-c%d-%s", c.id, c.root.name), s.kind(c, c.root), nil)
	res, err := s.proc.AddEventAndWait(ev, c.rm)
	// --- the instant the call returns ---
	c.returned = true
	c.resNil = res == nil
	if err != nil {
		c.retErr = err.Error()
	}
	run := map[string]bool{}
	errs := map[string][]string{}
	s.expected(c, c.root, run, errs)
	for r := range run {
		if c.started[r] != 1 || c.finished[r] != 1 {
			c.atReturn = append(c.atReturn, fmt.Sprintf("returned while rule %s started=%d finished=%d", r, c.started[r], c.finished[r]))
		}
	}
	for r, k := range c.started {
		if !run[r] {
			c.atReturn = append(c.atReturn, fmt.Sprintf("rule %s ran %d time(s) but must not run", r, k))
		}
	}
	if !c.root.norule && res != nil {
		if p := s.errorReport(c, errs); p != "" {
			c.atReturn = append(c.atReturn, "at return: "+p)
		}
	}
	sort.Strings(c.atReturn)
}

// errorReport compares the root monitor's collected errors with the expected ones.
func (s *c02State) errorReport(c *c02Casc, errs map[string][]string) string {
	var out []string
	got := map[string][]string{}
	for _, te := range c.rm.AllErrors() {
		var names []string
		for r, e := range te.ErrorMap {
			names = append(names, r)
			if e == nil || e.Error() != "fail-"+r {
				out = append(out, fmt.Sprintf("rule %s reported error %v", r, e))
			}
		}
		sort.Strings(names)
		if _, dup := got[te.Event.Name()]; dup {
			out = append(out, "two error entries for event "+te.Event.Name())
		}
		got[te.Event.Name()] = names
	}
	render := func(m map[string][]string) string {
		var ks []string
		for k, v := range m {
			sort.Strings(v)
			ks = append(ks, k+"="+strings.Join(v, "+"))
		}
		sort.Strings(ks)
		return strings.Join(ks, ",")
	}
	if render(got) != render(errs) {
		out = append(out, fmt.Sprintf("error report {%s}, expected {%s}", render(got), render(errs)))
	}
	return strings.Join(out, "; ")
}

type finisher interface{ IsFinished() bool }

func (s *c02State) finalCheck(c *c02Casc) []string {
	var out []string
	out = append(out, c.atReturn...)
	if c.retErr != "" {
		out = append(out, "AddEventAndWait returned error "+c.retErr)
	}
	run := map[string]bool{}
	errs := map[string][]string{}
	s.expected(c, c.root, run, errs)
	if c.root.norule {
		if !c.resNil {
			out = append(out, "non-triggering root event returned a monitor")
		}
		return out
	}
	if c.resNil {
		out = append(out, "triggering root event was skipped (nil monitor)")
		return out
	}
	if c.handler != 1 {
		out = append(out, fmt.Sprintf("finish handler ran %d times", c.handler))
	}
	for _, m := range c.monitors {
		if f, ok := m.(finisher); ok && !f.IsFinished() {
			out = append(out, "a monitor handed to the processor did not finish")
			break
		}
	}
	if p := s.errorReport(c, errs); p != "" {
		out = append(out, p)
	}
	return out
}

func c02Make(shapes []cshape, workers int, finish bool) func() (func(), func(e *vsched.Exec) (string, *vsched.Violation)) {
	return func() (func(), func(e *vsched.Exec) (string, *vsched.Violation)) {
		var s *c02State
		body := func() {
			s = &c02State{proc: engine.NewProcessor(workers), fofe: shapes[0].fofe}
			s.proc.SetFailOnFirstErrorInTriggerSequence(s.fofe)
			if c02LowThreshold {
				// the load regulation of the pool (queue-is-filling-up warning) is
				// reached with a single queued task instead of ten
				s.proc.ThreadPool().TooManyThreshold = 1
				s.proc.ThreadPool().TooManyCallback = func() {}
			}
			for i, sh := range shapes {
				c := &c02Casc{id: i, root: sh.root(), started: map[string]int{}, finished: map[string]int{}}
				s.cascs = append(s.cascs, c)
				s.addRules(c, c.root)
			}
			s.proc.Start()
			var wg vsched.WaitGroup
			for _, c := range s.cascs[1:] {
				c := c
				wg.Add(1)
				vsched.GoNamed(fmt.Sprintf("adder%d", c.id), func() {
					s.runCascade(c)
					wg.Done()
				})
			}
			s.runCascade(s.cascs[0])
			wg.Wait()
			vsched.Quiesce()
			if finish {
				s.proc.Finish()
			} else {
				vsched.End()
			}
		}
		check := func(e *vsched.Exec) (string, *vsched.Violation) {
			switch e.Outcome {
			case vsched.OutDeadlock, vsched.OutLivelock, vsched.OutHorizon:
				return e.Outcome, &vsched.Violation{Key: e.Outcome + ":" + e.BlockedKey(), Msg: e.Outcome + ": " + e.Detail}
			case vsched.OutPanic:
				return "panic", &vsched.Violation{Key: "panic:" + firstLineOf(e.Detail), Msg: e.Detail + "\n" + e.PanicStk}
			case vsched.OutFault:
				return "fault", &vsched.Violation{Key: "fault:" + e.Detail, Msg: e.Detail}
			}
			var probs []string
			for _, c := range s.cascs {
				for _, p := range s.finalCheck(c) {
					probs = append(probs, fmt.Sprintf("cascade %d: %s", c.id, p))
				}
			}
			if len(probs) > 0 {
				return "wrong", &vsched.Violation{Key: strings.Join(probs, ";"), Msg: strings.Join(probs, "; ")}
			}
			return "ok", nil
		}
		return body, check
	}
}

func firstLineOf(s string) string {
	if i := strings.Index(s, "\n"); i >= 0 {
		return s[:i]
	}
	return s
}

func init() {
	for _, sh := range c02Shapes {
		for _, w := range []int{1, 2, 3} {
			sh, w := sh, w
			q, t := 2, 2
			if w == 1 {
				q, t = 2, 3
			}
			if w == 3 {
				q, t = 1, 2
			}
			register(&Scenario{Prop: "C02", Name: fmt.Sprintf("%s-w%d", sh.name, w), Quick: q, Thor: t,
				Desc: fmt.Sprintf("cascade %s on %d worker(s): AddEventAndWait, oracle at the instant of return and at quiescence", sh.name, w),
				Make: c02Make([]cshape{sh}, w, w == 1)})
		}
	}
	// the pool's load regulation inside the cascade: threshold 1
	for _, idx := range []int{1, 2} {
		for _, w := range []int{1, 2} {
			sh, w := c02Shapes[idx], w
			mk := c02Make([]cshape{sh}, w, false)
			q, shards := 1, 1
			if w == 2 {
				// the lock-order window needs the worker and the adder both inside their
				// critical sections: two preemptions
				q, shards = 2, 4
			}
			register(&Scenario{Prop: "C02", Name: fmt.Sprintf("%s-w%d-loadregulation", sh.name, w), Quick: q, Thor: 2, FreeQuick: 2, FreeThor: 2, QuickShards: shards, ThorShards: 4,
				Desc: fmt.Sprintf("cascade %s on %d worker(s) with the pool's too-many-tasks threshold at 1 (the regulation code runs on every add and every empty dequeue)", sh.name, w),
				Make: func() (func(), func(e *vsched.Exec) (string, *vsched.Violation)) {
					b, c := mk()
					return func() {
						c02LowThreshold = true
						defer func() { c02LowThreshold = false }()
						b()
					}, c
				}})
		}
	}
	// two cascades in flight at once (own root monitors, separate adder threads)
	pairs := [][2]int{{1, 5}, {2, 4}, {0, 6}, {3, 8}, {1, 9}, {9, 2}, {9, 9}}
	for _, pr := range pairs {
		for _, w := range []int{1, 2} {
			pr, w := pr, w
			a, b := c02Shapes[pr[0]], c02Shapes[pr[1]]
			register(&Scenario{Prop: "C02", Name: fmt.Sprintf("two-%s+%s-w%d", a.name, b.name, w), Quick: 1, Thor: 2,
				Desc: fmt.Sprintf("two cascades in flight (%s, %s) on %d worker(s); the random cascade pick of the task queue is an explored data choice", a.name, b.name, w),
				Make: c02Make([]cshape{a, b}, w, false)})
		}
	}
}
