package main

import (
	"encoding/json"
	"fmt"
	"sort"
	"strings"

	"github.com/krotik/ecal/interpreter"
	"github.com/krotik/ecal/parser"
	"github.com/krotik/ecal/util"
	"github.com/krotik/ecal/zzverif/vsched"
)

// ---------------------------------------------------------------------------
// C16 — the debugger command interface is total
//
// Explicit-state breadth-first search on the real debugger: a state is the
// history that reaches it (fresh real objects are built and the history is
// replayed for every successor), states are de-duplicated on a canonical
// observable form, the invariant is evaluated after every command.

// c16MaxTransitions caps one breadth-first search (the suspended-thread states
// have thousands of distinct successors at depth 2; depth 3 over the full menu
// is out of reach for them). Every transition starts a fresh debugger session
// with its own threads inside ONE controlled execution, and the scheduler's
// vector clocks grow with the number of threads of the execution (quadratic
// memory): 12000 transitions needed more than 6 GB.
const c16MaxTransitions = 3500

type c16Init struct {
	name   string
	src    string
	breaks []int
	finish bool // run the program to its end
	none   bool // nothing executed at all
	bos    bool // breakonstart instead of breakpoints
}

var c16Inits = []c16Init{
	{name: "fresh", none: true},
	{name: "finished", src: "a := 1\nb := 2", finish: true},
	{name: "top", src: "a := 1\nb := 2\nc := 3", breaks: []int{2}},
	// suspended inside nested block scopes of a function (describe merges the scopes up to the function)
	{name: "blocks", src: "func f(x) {\n  if x > 0 {\n    let y := x\n    for i in [1] {\n      y := y + i\n    }\n    return y\n  }\n}\na := f(1)", breaks: []int{5}},
	// suspended inside a call that is the argument of another call
	{name: "argcall", src: "func g(x) {\n  return x * 2\n}\nfunc f(x) {\n  return x + 1\n}\nr := f(g(2))\nlog(r)", breaks: []int{2}},
	{name: "toplist", src: "a := [1, {\"k\": 2}]\nb := 2\nc := 3", breaks: []int{2}},
	{name: "call1", src: "func f(x) {\n  y := x\n  return y\n}\na := f(1)\nb := 2", breaks: []int{2}},
	{name: "call2", src: "func g(x) {\n  return x * 2\n}\nfunc f(x) {\n  let z := g(x)\n  return z + 1\n}\nr := f(2)", breaks: []int{2}},
	// single-statement programs: the root node itself carries a token, so the
	// very first state visit of a fresh debugger already suspends
	{name: "oneliner", src: "a := 1", breaks: []int{1}},
	{name: "oneliner-bos", src: "a := [1, 2]", bos: true},
	{name: "error", src: "func f() {\n  raise(\"E\", \"d\", {\"k\": [1]})\n}\nf()\nb := 2"},
	// suspended in scopes whose chain does not end in the global scope: the
	// default value of a constructor parameter is evaluated in the fresh root
	// scope that new() makes for init, and the second call of a chained call
	// o.f().g() starts from the scope holding the result of the first
	{name: "ctor-default", src: "Counter := {\n  \"init\" : func (\n    start =\n      10\n  ) {\n    this.value := start\n  }\n}\nc := new(Counter)\nlog(c.value)", breaks: []int{4}},
	{name: "chained-call", src: "o := {\n  \"f\" : func () {\n    return {\n      \"g\" : func () {\n        return 1\n      }\n    }\n  }\n}\nr := o.f().g()\nlog(r)", breaks: []int{5}},
}

type c16Sess struct {
	en     *ienv
	dbg    util.ECALDebugger
	tid    uint64
	hasT   bool
	done   bool
	tpanic string
	wg     vsched.WaitGroup
}

func (s *c16Sess) suspendedIDs() []string {
	st, err := s.dbg.HandleInput("status")
	if err != nil {
		return nil
	}
	threads, _ := st.(map[string]interface{})["threads"].(map[string]map[string]interface{})
	var ids []string
	for id, t := range threads {
		if r, ok := t["threadRunning"]; ok && !r.(bool) {
			ids = append(ids, id)
		}
	}
	sort.Strings(ids)
	return ids
}

func c16Start(in c16Init) (*c16Sess, string) {
	s := &c16Sess{en: newEnv(1)}
	s.dbg = interpreter.NewECALDebugger(s.en.vs)
	s.en.erp.Debugger = s.dbg
	if in.none {
		s.tid = 1
		return s, ""
	}
	for _, b := range in.breaks {
		s.dbg.HandleInput(fmt.Sprintf("break v:%d", b))
	}
	if in.bos {
		s.dbg.HandleInput("breakonstart true")
	}
	ast, err := parser.ParseWithRuntime("v", in.src, s.en.erp)
	if err == nil {
		err = ast.Runtime.Validate()
	}
	if err != nil {
		return nil, "setup: " + err.Error()
	}
	s.tid = s.en.erp.NewThreadID()
	s.hasT = true
	s.wg.Add(1)
	vsched.GoNamed("T", func() {
		defer func() {
			if r := recover(); r != nil {
				s.tpanic = fmt.Sprint(r)
			}
			s.done = true
			s.wg.Done()
		}()
		ast.Runtime.Eval(s.en.vs, make(map[string]interface{}), s.tid)
		s.dbg.RecordThreadFinished(s.tid)
	})
	for i := 0; ; i++ {
		vsched.Quiesce()
		if s.done {
			break
		}
		if ids := s.suspendedIDs(); len(ids) > 0 {
			if in.finish {
				for _, id := range ids {
					s.dbg.HandleInput("cont " + id + " resume")
				}
				continue
			}
			break
		}
		if i > 50 {
			return nil, "setup: thread neither finished nor suspended"
		}
	}
	if in.finish != s.done {
		return nil, fmt.Sprintf("setup: initial state %s not reached (done=%v)", in.name, s.done)
	}
	return s, ""
}

// canon renders the observable debugger state.
func (s *c16Sess) canon() string {
	st, err := s.dbg.HandleInput("status")
	if err != nil {
		return "status-error:" + err.Error()
	}
	m := st.(map[string]interface{})
	var b strings.Builder
	fmt.Fprintf(&b, "bos=%v;", m["breakonstart"])
	bp, _ := m["breakpoints"].(map[string]bool)
	var ks []string
	for k, v := range bp {
		ks = append(ks, fmt.Sprintf("%s=%v", k, v))
	}
	sort.Strings(ks)
	fmt.Fprintf(&b, "bp=%v;", ks)
	threads, _ := m["threads"].(map[string]map[string]interface{})
	var ts []string
	for id, t := range threads {
		cs, _ := t["callStack"].([]string)
		line := ""
		if d, err := s.dbg.HandleInput("describe " + id); err == nil && d != nil {
			if dm, ok := d.(map[string]interface{}); ok {
				if n, ok := dm["node"].(map[string]interface{}); ok {
					line = fmt.Sprint(n["line"])
				}
			}
		}
		ts = append(ts, fmt.Sprintf("%s:run=%v,err=%v,depth=%d,line=%s", id, t["threadRunning"], t["error"] != nil, len(cs), line))
	}
	sort.Strings(ts)
	fmt.Fprintf(&b, "threads=%v;done=%v;", ts, s.done)
	// variables of the global scope are observable through extract/inject
	js, _ := json.Marshal(s.en.vs.ToJSONObject())
	b.Write(js)
	return b.String()
}

type lockInfo interface {
	HeldInfo() (bool, int)
}

// apply runs one command line and evaluates the invariant. It returns a
// problem description ("" if none) and whether the history can be continued.
func (s *c16Sess) apply(line string) (prob string, cont bool) {
	var res interface{}
	var err error
	pan := func() (p string) {
		defer func() {
			if r := recover(); r != nil {
				p = fmt.Sprint(r)
			}
		}()
		res, err = s.dbg.HandleInput(line)
		return ""
	}()
	if pan != "" {
		return "panic: " + pan, false
	}
	if err == nil {
		if _, jerr := json.Marshal(res); jerr != nil {
			return "result is not JSON-encodable: " + jerr.Error(), true
		}
	}
	if l, ok := interpreter.VerifDebuggerLock(s.dbg).(lockInfo); ok {
		if w, r := l.HeldInfo(); w || r > 0 {
			return fmt.Sprintf("debugger lock left held (writer=%v readers=%d)", w, r), false
		}
	}
	// threads released by the command run to their next quiescent point
	vsched.Quiesce()
	if s.tpanic != "" {
		return "released thread panicked: " + s.tpanic, false
	}
	// the debugger keeps answering
	pan = func() (p string) {
		defer func() {
			if r := recover(); r != nil {
				p = fmt.Sprint(r)
			}
		}()
		var st interface{}
		st, err = s.dbg.HandleInput("status")
		if err == nil {
			if _, jerr := json.Marshal(st); jerr != nil {
				p = "status result is not JSON-encodable: " + jerr.Error()
			}
		}
		return
	}()
	if pan != "" {
		if strings.HasPrefix(pan, "status result") {
			return pan, true
		}
		return "status panics afterwards: " + pan, false
	}
	if err != nil {
		return "status fails afterwards: " + err.Error(), true
	}
	return "", true
}

// finish releases the program thread and waits for its end.
func (s *c16Sess) finish() string {
	if !s.hasT {
		return ""
	}
	for i := 0; !s.done; i++ {
		s.dbg.StopThreads(0)
		vsched.Quiesce()
		if i > 20 {
			return "suspended thread cannot be released by StopThreads"
		}
	}
	s.wg.Wait()
	return ""
}

func c16Menu(in c16Init, full bool) []string {
	tids := []string{"1", "7", "0", "-1", "9223372036854775808", "abc"}
	targets := []string{"v:2", "v:1", "zz:1", "v:", ":1", "v:x", "v", "v:2:3", "v:99999999999999999999"}
	names := []string{"a", "x", "1a", "y"}
	// container paths (the state "toplist" holds a := [1, {"k": 2}]): existing,
	// negative, out of range on both sides, through a non-container
	paths := []string{"a.b", "nosuch.f", "a.7", "a.0", "a.1.k", "a.-1", "a.-5", "a.1.-1"}
	if in.name == "toplist" {
		names = append(names, paths...)
	}
	// expressions that call a function defined by the debugged program are in
	// the separate scenario inject-program-function (known finding C16-inject)
	exprs := []string{"1", "1+", "a", "{{", "x := 1", "[1,2]", "1 2", "len(a)", "nofunc(1)"}
	var m []string
	add := func(s string) { m = append(m, s) }
	for _, c := range []string{"break", "rmbreak", "disablebreak"} {
		add(c)
		for _, t := range targets {
			add(c + " " + t)
		}
		add(c + " v:2 extra")
	}
	add("cont")
	add("cont 1")
	add("cont 1 resume extra")
	for _, t := range tids {
		for _, k := range []string{"resume", "stepin", "stepover", "stepout", "RESUME", "bogus"} {
			add("cont " + t + " " + k)
		}
	}
	add("describe")
	add("describe 1 2")
	for _, t := range tids {
		add("describe " + t)
	}
	add("status")
	add("status x")
	add("lockstate")
	add("lockstate x")
	add("breakonstart")
	for _, a := range []string{"true", "false", "abc"} {
		add("breakonstart " + a)
	}
	add("extract")
	add("extract 1 a")
	add("extract 1 a b c")
	for _, t := range tids {
		for _, n1 := range names {
			for _, n2 := range []string{"g1", "1a"} {
				if !full && t != "1" && n1 != "a" {
					continue
				}
				add("extract " + t + " " + n1 + " " + n2)
			}
		}
	}
	add("inject")
	add("inject 1 a")
	for _, t := range tids {
		// targets: a variable, a malformed name, and paths the scope cannot write
		// (through a non-container, into an unknown container, index out of range)
		for _, n1 := range append([]string{"a", "1a"}, paths...) {
			for _, e := range exprs {
				if !full && t != "1" && e != "1" {
					continue
				}
				if !full && strings.Contains(n1, ".") && e != "1" && e != "len(a)" {
					continue
				}
				if strings.HasPrefix(n1, "a.") && e == "a" {
					// a[i] := a makes the list contain itself; rendering such a value
					// kills the process (recorded finding C06 / C16, Engine-B part
					// self-referential-containers) and the worker with it
					continue
				}
				add("inject " + t + " " + n1 + " " + e)
			}
		}
	}
	add("foo")
	add("foo 1 2")
	add("")
	add("   ")
	if in.name == "toplist" && !full {
		// the list state exists for the container paths: quick keeps the commands that take them
		var r []string
		for _, l := range m {
			if strings.HasPrefix(l, "inject 1 ") || strings.HasPrefix(l, "extract 1 ") || l == "status" || l == "describe 1" || strings.HasPrefix(l, "cont 1 ") {
				r = append(r, l)
			}
		}
		return r
	}
	return m
}

func init() {
	for ii := range c16Inits {
		in := c16Inits[ii]
		register(&Scenario{Prop: "C16", Name: "bfs-" + in.name, Quick: 0, Thor: 0, FreeQuick: -1, FreeThor: -1, Horizon: 500000000,
			Desc: "breadth-first search over command histories from debugger state '" + in.name + "' (depth 2 quick, 3 thorough), every command line of the menu applied in every distinct canonical state",
			Make: func() (func(), func(e *vsched.Exec) (string, *vsched.Violation)) {
				var probs []string
				states, trans, maxDepth := 0, 0, 0
				capped := false
				body := func() {
					probs = nil
					states, trans, maxDepth = 0, 0, 0
					depth := 2
					full := false
					if tierThorough() {
						depth = 3
						full = true
					}
					menu := c16Menu(in, full)
					seen := map[string]bool{}
					probSeen := map[string]bool{}
					// initial state
					s0, p := c16Start(in)
					if p != "" {
						probs = append(probs, p)
						return
					}
					seen[s0.canon()] = true
					if p := s0.finish(); p != "" {
						probs = append(probs, p+" [initial state]")
					}
					frontier := [][]string{{}}
					capped = false
					for d := 1; d <= depth && len(frontier) > 0 && !capped; d++ {
						var next [][]string
						for _, hist := range frontier {
							if trans >= c16MaxTransitions {
								// deterministic cap (not wall-clock): breadth-first order, so every
								// depth below d is complete and depth d is covered for a prefix of
								// the frontier; reported in the observation
								capped = true
								break
							}
							for _, cmd := range menu {
								s, p := c16Start(in)
								if p != "" {
									probs = append(probs, p)
									return
								}
								ok := true
								for _, h := range hist {
									if _, c := s.apply(h); !c {
										ok = false
										break
									}
								}
								if !ok {
									s.finish()
									continue
								}
								trans++
								prob, cont := s.apply(cmd)
								if prob != "" {
									k := prob
									if !probSeen[k] {
										probSeen[k] = true
										probs = append(probs, fmt.Sprintf("%s [state %s, after %q, command %q]", prob, in.name, hist, cmd))
									}
								}
								if cont {
									c := s.canon()
									if !seen[c] {
										seen[c] = true
										h2 := append(append([]string{}, hist...), cmd)
										next = append(next, h2)
										if d > maxDepth {
											maxDepth = d
										}
									}
								}
								if p := s.finish(); p != "" && !probSeen[p] {
									probSeen[p] = true
									probs = append(probs, fmt.Sprintf("%s [state %s, after %q + %q]", p, in.name, hist, cmd))
								}
							}
						}
						frontier = next
					}
					states = len(seen)
				}
				chk := c15Check(func() []string { return probs })
				return body, func(e *vsched.Exec) (string, *vsched.Violation) {
					o, v := chk(e)
					if v != nil {
						// one key per distinct failure class
						v.Key = c16Key(v.Key)
					}
					if capped {
						o += " capped-at-transition-limit"
					}
					return fmt.Sprintf("%s states=%d transitions=%d maxdepth=%d", o, states, trans, maxDepth), v
				}
			}})
	}
}

// inject with an expression that calls a function of the debugged program
func init() {
	register(&Scenario{Prop: "C16", Name: "inject-program-function", Quick: 0, Thor: 0, FreeQuick: -1, FreeThor: -1,
		Desc: "thread suspended inside f (state call1); command `inject 1 y f(1)`: the expression calls a function defined by the debugged program",
		Make: func() (func(), func(e *vsched.Exec) (string, *vsched.Violation)) {
			var probs []string
			body := func() {
				probs = nil
				s, p := c16Start(c16Inits[3])
				if p != "" {
					probs = append(probs, p)
					return
				}
				s.dbg.HandleInput("rmbreak v")
				if prob, _ := s.apply("inject 1 y f(1)"); prob != "" {
					probs = append(probs, prob)
				}
				if p := s.finish(); p != "" {
					probs = append(probs, p)
				}
			}
			chk := c15Check(func() []string { return probs })
			return body, func(e *vsched.Exec) (string, *vsched.Violation) {
				o, v := chk(e)
				if v != nil && strings.HasPrefix(v.Key, "deadlock:") {
					v.Key = "inject never returns: expression calls a function of the debugged program"
				}
				return o, v
			}
		}})
}

// concurrent: a second program thread keeps running (function calls take the
// debugger's write lock) while a command is handled for the suspended thread.
func init() {
	cmds := []string{"cont 1 stepout", "cont 1 resume", "cont 1 stepin", "cont 1 stepover", "status", "describe 1", "extract 1 a g1", "inject 1 a 1", "lockstate", "rmbreak v", "break w:2", "describe 2", "cont 2 resume"}
	type pc struct{ prop, cmd string }
	var pcs []pc
	// commands addressed to thread 2 while it is known to the debugger, running
	// and in the middle of its program (parked in a harness function): a thread
	// that was never suspended has a call stack but no interrogation state
	for _, cmd := range []string{"describe 2", "cont 2 resume", "cont 2 stepout", "extract 2 x g1", "inject 2 x 1"} {
		pcs = append(pcs, pc{"C16", "parked: " + cmd})
	}
	for _, cmd := range cmds {
		pcs = append(pcs, pc{"C16", cmd})
		if strings.HasPrefix(cmd, "cont 1 ") {
			// C15: a suspended thread is released by the next continue command also
			// while other threads of the same runtime keep running
			pcs = append(pcs, pc{"C15", cmd})
		}
	}
	for _, x := range pcs {
		cmd := x.cmd
		parked := strings.HasPrefix(cmd, "parked: ")
		cmd = strings.TrimPrefix(cmd, "parked: ")
		if parked {
			x.cmd = "parked-" + cmd
		}
		register(&Scenario{Prop: x.prop, Name: "concurrent-" + strings.Replace(x.cmd, " ", "_", -1), Quick: 1, Thor: 2, FreeQuick: 1, FreeThor: 2,
			Desc: "thread 1 suspended at a top-level breakpoint, thread 2 running function calls (step-in/out take the debugger's write lock); the command `" + cmd + "` followed by `status` under every schedule within the bound",
			Make: func() (func(), func(e *vsched.Exec) (string, *vsched.Violation)) {
				var probs []string
				body := func() {
					probs = nil
					s, p := c16Start(c16Init{name: "top", src: "a := 1\nb := 2\nc := 3", breaks: []int{2}})
					if p != "" {
						probs = append(probs, p)
						return
					}
					src2 := "func f(x) {\n  return x\n}\nf(1)\nf(2)"
					isParked := false
					var gate vsched.WaitGroup
					if parked {
						src2 = "func f(x) {\n  hpark()\n  return x\n}\nx := f(1)\nf(2)"
						gate.Add(1)
						first := true
						s.en.def("hpark", func(tid uint64, args []interface{}) (interface{}, error) {
							if first {
								first = false
								isParked = true
								gate.Wait()
							}
							return nil, nil
						})
					}
					ast2, err := parser.ParseWithRuntime("w", src2, s.en.erp)
					if err == nil {
						err = ast2.Runtime.Validate()
					}
					if err != nil {
						probs = append(probs, "setup: "+err.Error())
						return
					}
					tid2 := s.en.erp.NewThreadID()
					done2 := false
					var wg2 vsched.WaitGroup
					wg2.Add(1)
					vsched.GoNamed("T2", func() {
						defer func() {
							if r := recover(); r != nil {
								s.tpanic = fmt.Sprint(r)
							}
							done2 = true
							wg2.Done()
						}()
						ast2.Runtime.Eval(s.en.vs.NewChild("t2"), make(map[string]interface{}), tid2)
						s.dbg.RecordThreadFinished(tid2)
					})
					if parked {
						for i := 0; !isParked && !done2 && i < 50; i++ {
							vsched.Quiesce()
						}
						if !isParked {
							probs = append(probs, "setup: thread 2 did not reach its parking place")
						}
					}
					// the command is handled while T2 runs
					var res interface{}
					var herr error
					pan := func() (p string) {
						defer func() {
							if r := recover(); r != nil {
								p = fmt.Sprint(r)
							}
						}()
						res, herr = s.dbg.HandleInput(cmd)
						if herr == nil {
							if _, jerr := json.Marshal(res); jerr != nil {
								p = "result is not JSON-encodable: " + jerr.Error()
							}
						}
						_, herr = s.dbg.HandleInput("status")
						return p
					}()
					if pan != "" {
						probs = append(probs, "panic: "+pan)
					}
					if herr != nil {
						probs = append(probs, "status fails afterwards: "+herr.Error())
					}
					if parked {
						gate.Done()
					}
					for i := 0; !(done2 && s.done); i++ {
						s.dbg.StopThreads(0)
						vsched.Quiesce()
						if i > 30 {
							probs = append(probs, "suspended threads cannot be released by StopThreads")
							break
						}
					}
					if done2 && s.done {
						wg2.Wait()
						s.wg.Wait()
					}
					if s.tpanic != "" {
						probs = append(probs, "program thread panicked: "+s.tpanic)
					}
				}
				return body, c15Check(func() []string { return probs })
			}})
	}
}

func c16Key(s string) string {
	if i := strings.Index(s, " [state"); i > 0 {
		s = s[:i]
	}
	return s
}
