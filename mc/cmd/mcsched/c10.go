package main

import (
	"fmt"
	"math"
	"sort"
	"strings"

	"github.com/krotik/ecal/engine"
	"github.com/krotik/ecal/zzverif/vsched"
)

// ---------------------------------------------------------------------------
// C10 — priorities order execution; the first failing rule ends a trigger sequence

func allSeqs(alpha, maxLen int) [][]int {
	out := [][]int{}
	var rec func(cur []int)
	rec = func(cur []int) {
		if len(cur) > 0 {
			out = append(out, append([]int{}, cur...))
		}
		if len(cur) == maxLen {
			return
		}
		for a := 0; a < alpha; a++ {
			rec(append(cur, a))
		}
	}
	rec(nil)
	return out
}

// (i) queue order through the public API: one worker parked inside a gate
// action while the driver queues events with the given child priorities.
func c10QueueOrder(seq []int, cascades int) []string {
	var probs []string
	proc := engine.NewProcessor(1)
	var gate vsched.WaitGroup
	gate.Add(1)
	var order []string
	proc.AddRule(&engine.Rule{Name: "gate", KindMatch: []string{"gate"}, ScopeMatch: []string{},
		Action: func(p engine.Processor, m engine.Monitor, e *engine.Event, tid uint64) error {
			gate.Wait()
			return nil
		}})
	proc.AddRule(&engine.Rule{Name: "item", KindMatch: []string{"item"}, ScopeMatch: []string{},
		Action: func(p engine.Processor, m engine.Monitor, e *engine.Event, tid uint64) error {
			order = append(order, e.Name())
			return nil
		}})
	proc.Start()
	rms := make([]*engine.RootMonitor, cascades)
	for c := range rms {
		rms[c] = proc.NewRootMonitor(nil, nil)
	}
	// the gate event belongs to cascade 0
	proc.AddEvent(engine.NewEvent("gate", []string{"gate"}, nil), rms[0])
	vsched.Quiesce() // the worker is now parked inside the gate action
	type item struct {
		name string
		prio int
		casc int
		idx  int
	}
	var items []item
	for i, p := range seq {
		c := i % cascades
		it := item{fmt.Sprintf("c%d-i%d-p%d", c, i, p), p, c, i}
		items = append(items, it)
		var parent engine.Monitor = rms[c]
		if c != 0 {
			// cascade c needs an activated root: its first item activates the root itself
		}
		cm := parent.NewChildMonitor(p)
		proc.AddEvent(engine.NewEvent(it.name, []string{"item"}, nil), cm)
	}
	gate.Done()
	vsched.Quiesce()
	proc.Finish()
	if len(order) != len(items) {
		probs = append(probs, fmt.Sprintf("%d of %d queued events were processed", len(order), len(items)))
		return probs
	}
	// per cascade: ascending priority, oldest first among equals
	for c := 0; c < cascades; c++ {
		var want []item
		for _, it := range items {
			if it.casc == c {
				want = append(want, it)
			}
		}
		sort.SliceStable(want, func(i, j int) bool { return want[i].prio < want[j].prio })
		var got []string
		for _, n := range order {
			if strings.HasPrefix(n, fmt.Sprintf("c%d-", c)) {
				got = append(got, n)
			}
		}
		var w []string
		for _, it := range want {
			w = append(w, it.name)
		}
		if strings.Join(got, " ") != strings.Join(w, " ") {
			probs = append(probs, fmt.Sprintf("cascade %d taken in order [%s], expected [%s]", c, strings.Join(got, " "), strings.Join(w, " ")))
		}
	}
	return probs
}

// c10WithReset makes c10RuleOrderX replace the rule set through Reset first.
var c10WithReset bool

// (ii) rule order and fail-on-first-error through ProcessEvent.
func c10RuleOrder(prios [3]int, failMask int, fofe bool, addFirst bool) []string {
	return c10RuleOrderX(prios, failMask, fofe, addFirst, -1, 0)
}

// c10RuleOrderX: xpos >= 0 inserts a fourth rule that matches the event but is
// out of the cascade's scope before the xpos-th rule (insertion order is the
// order in which the index returns candidates).
func c10RuleOrderX(prios [3]int, failMask int, fofe bool, addFirst bool, xpos int, xprio int) []string {
	var probs []string
	proc := engine.NewProcessor(1)
	proc.SetFailOnFirstErrorInTriggerSequence(fofe)
	if c10WithReset {
		// the rule set is replaced before the start (what a reload does): Reset
		// removes the rules, nothing else
		proc.AddRule(&engine.Rule{Name: "old", KindMatch: []string{"ev"}, ScopeMatch: []string{}, Priority: -5,
			Action: func(p engine.Processor, m engine.Monitor, e *engine.Event, tid uint64) error {
				return fmt.Errorf("a rule removed by Reset ran")
			}})
		if err := proc.Reset(); err != nil {
			return []string{"Reset failed: " + err.Error()}
		}
	}
	var ran []int
	childRan := 0
	xran := 0
	addX := func() {
		proc.AddRule(&engine.Rule{Name: "x-out-of-scope", KindMatch: []string{"ev"}, ScopeMatch: []string{"admin"}, Priority: xprio,
			Action: func(p engine.Processor, m engine.Monitor, e *engine.Event, tid uint64) error { xran++; return nil }})
	}
	for i := 0; i < 3; i++ {
		i := i
		if xpos == i {
			addX()
		}
		proc.AddRule(&engine.Rule{Name: fmt.Sprintf("r%d", i), KindMatch: []string{"ev"}, ScopeMatch: []string{}, Priority: prios[i],
			Action: func(p engine.Processor, m engine.Monitor, e *engine.Event, tid uint64) error {
				ran = append(ran, i)
				if failMask&(1<<uint(i)) != 0 {
					if addFirst {
						p.AddEvent(engine.NewEvent(fmt.Sprintf("child-of-r%d", i), []string{"child"}, nil), m.NewChildMonitor(0))
					}
					return fmt.Errorf("fail-r%d", i)
				}
				return nil
			}})
	}
	proc.AddRule(&engine.Rule{Name: "child", KindMatch: []string{"child"}, ScopeMatch: []string{},
		Action: func(p engine.Processor, m engine.Monitor, e *engine.Event, tid uint64) error {
			childRan++
			return nil
		}})
	if xpos == 3 {
		addX()
	}
	proc.Start()
	var rm *engine.RootMonitor
	if xpos >= 0 {
		rm = proc.NewRootMonitor(nil, engine.NewRuleScope(map[string]bool{"": true, "admin": false}))
	} else {
		rm = proc.NewRootMonitor(nil, nil)
	}
	ev := engine.NewEvent("e", []string{"ev"}, nil)
	rm.Activate(ev)
	errs := proc.ProcessEvent(999, ev, rm)
	defer func() { _ = xran }()
	vsched.Quiesce()
	proc.Finish()
	if xran > 0 {
		probs = append(probs, "a rule that is out of the cascade's scope ran")
	}
	// executed order must be ascending in priority
	for k := 1; k < len(ran); k++ {
		if prios[ran[k-1]] > prios[ran[k]] {
			probs = append(probs, fmt.Sprintf("rules ran in order %v with priorities %v", ran, prios))
			break
		}
	}
	seen := map[int]bool{}
	for _, r := range ran {
		if seen[r] {
			probs = append(probs, fmt.Sprintf("rule r%d ran twice", r))
		}
		seen[r] = true
	}
	firstFail := -1
	for k, r := range ran {
		if failMask&(1<<uint(r)) != 0 {
			firstFail = k
			break
		}
	}
	if fofe && firstFail >= 0 {
		if len(ran) != firstFail+1 {
			probs = append(probs, fmt.Sprintf("fail-on-first-error: rules %v ran although rule r%d failed", ran[firstFail+1:], ran[firstFail]))
		}
		// every rule with a strictly lower priority number than the failing one must have run
		for i := 0; i < 3; i++ {
			if prios[i] < prios[ran[firstFail]] && !seen[i] {
				probs = append(probs, fmt.Sprintf("rule r%d (priority %d) did not run before the failing rule", i, prios[i]))
			}
		}
	} else if len(ran) != 3 {
		probs = append(probs, fmt.Sprintf("only rules %v ran, all three are triggered", ran))
	}
	wantErr := 0
	for _, r := range ran {
		if failMask&(1<<uint(r)) != 0 {
			wantErr++
			if e, ok := errs[fmt.Sprintf("r%d", r)]; !ok || e.Error() != fmt.Sprintf("fail-r%d", r) {
				probs = append(probs, fmt.Sprintf("failure of rule r%d not reported", r))
			}
		}
	}
	if len(errs) != wantErr {
		probs = append(probs, fmt.Sprintf("%d errors reported, %d rules failed", len(errs), wantErr))
	}
	if addFirst && childRan != wantErr {
		probs = append(probs, fmt.Sprintf("%d events added by failing rules were processed, expected %d", childRan, wantErr))
	}
	return probs
}

// (iii) highest-priority report: explicit-state search over real monitors.
type c10Op struct {
	kind string // new, act, skip, fin
	arg  int    // priority for new, monitor index otherwise
}

type c10Mon struct {
	m      engine.Monitor
	prio   int
	status string // created, active, skipped, finished
	trig   bool   // activated by a triggering event (not skipped)
}

func c10Build(hist []c10Op) (mons []*c10Mon, rm *engine.RootMonitor, prob string) {
	proc := engine.NewProcessor(1)
	rm = proc.NewRootMonitor(nil, nil)
	ev := engine.NewEvent("e", []string{"k"}, nil)
	mons = []*c10Mon{{m: rm, prio: 0, status: "created"}}
	defer func() {
		if r := recover(); r != nil {
			prob = fmt.Sprint("panic: ", r)
		}
	}()
	for _, op := range hist {
		switch op.kind {
		case "new":
			// children are created under the root monitor
			mons = append(mons, &c10Mon{m: rm.NewChildMonitor(op.arg), prio: op.arg, status: "created"})
		case "act":
			mons[op.arg].m.Activate(ev)
			mons[op.arg].status = "active"
			mons[op.arg].trig = true
		case "skip":
			mons[op.arg].m.Skip(ev)
			mons[op.arg].status = "skipped"
		case "fin":
			mons[op.arg].m.Finish()
			mons[op.arg].status = "finished"
		}
	}
	return
}

func c10Enabled(mons []*c10Mon, maxMons int) []c10Op {
	var ops []c10Op
	if len(mons) < maxMons {
		for p := 0; p < 3; p++ {
			ops = append(ops, c10Op{"new", p})
		}
	}
	for i, m := range mons {
		switch m.status {
		case "created":
			ops = append(ops, c10Op{"act", i})
			if i > 0 {
				ops = append(ops, c10Op{"skip", i})
			}
		case "active":
			ops = append(ops, c10Op{"fin", i})
		}
	}
	return ops
}

func c10Canon(mons []*c10Mon) string {
	var l []string
	for i, m := range mons {
		if i == 0 {
			l = append(l, "root:"+m.status)
		} else {
			l = append(l, fmt.Sprintf("%d:%s", m.prio, m.status))
		}
	}
	sort.Strings(l[1:])
	return strings.Join(l, ",")
}

func c10Invariant(mons []*c10Mon, rm *engine.RootMonitor) string {
	want := -1
	for _, m := range mons {
		if m.status == "active" && m.trig {
			if want == -1 || m.prio < want {
				want = m.prio
			}
		}
	}
	if got := rm.HighestPriority(); got != want {
		return fmt.Sprintf("HighestPriority reports %d, the lowest number among activated unfinished monitors is %d", got, want)
	}
	return ""
}

// (iv) concurrent: the order in which the workers take events, read off the
// recorded schedule (the queue's critical sections are totally ordered by the
// acquisition order of its lock under the controlled scheduler).
type c10Conc struct {
	adds   []c10Stamp // driver: about to add event
	starts []c10Stamp // action start
	prio   map[string]int
}

type c10Stamp struct {
	tid  int
	step int
	name string
}

func c10PopOrderCheck(e *vsched.Exec, st *c10Conc) string {
	// collect queue operations from the trace
	type qop struct {
		tid, step int
		push      bool
	}
	var ops []qop
	for i, p := range e.Points {
		fn := vsched.SiteFuncShort(p.Site)
		if p.Kind.String() == "Lock" && fn == "engine.(*TaskQueue).Push" {
			ops = append(ops, qop{p.Chosen, i, true})
		} else if p.Kind.String() == "Lock" && fn == "engine.(*TaskQueue).Pop" {
			ops = append(ops, qop{p.Chosen, i, false})
		}
	}
	if len(ops) == 0 {
		return "" // seam by function name not available: nothing to check
	}
	// name pushes: the first push of the thread after the driver's stamp
	pushStep := map[string]int{}
	for _, a := range st.adds {
		for _, o := range ops {
			if o.push && o.tid == a.tid && o.step >= a.step {
				pushStep[a.name] = o.step
				break
			}
		}
	}
	// name pops: the last pop of the thread before the action start
	popStep := map[string]int{}
	for _, s := range st.starts {
		best := -1
		for _, o := range ops {
			if !o.push && o.tid == s.tid && o.step <= s.step {
				best = o.step
			}
		}
		if best >= 0 {
			popStep[s.name] = best
		}
	}
	for y, ps := range popStep {
		for x, px := range pushStep {
			if x == y {
				continue
			}
			xpop, popped := popStep[x]
			if px < ps && (!popped || xpop > ps) {
				// x was queued and not yet taken when y was taken
				if st.prio[x] < st.prio[y] {
					return fmt.Sprintf("event %s (priority %d) taken while %s (priority %d) was queued earlier", y, st.prio[y], x, st.prio[x])
				}
				if st.prio[x] == st.prio[y] && px < pushStep[y] {
					return fmt.Sprintf("event %s taken before the older event %s of the same priority", y, x)
				}
			}
		}
	}
	return ""
}

func init() {
	register(&Scenario{Prop: "C10", Name: "queue-order", Quick: 0, Thor: 0, FreeQuick: -1, FreeThor: -1, Horizon: 500000000,
		Desc: "every priority sequence in {0,1,2}^<=5 (thorough <=6) queued for one cascade, and split over two cascades, while the single worker is parked inside a gate action; the worker's action order is the pop order; oracle: priority-FIFO",
		Make: func() (func(), func(e *vsched.Exec) (string, *vsched.Violation)) {
			var probs []string
			n := 0
			body := func() {
				probs, n = nil, 0
				maxLen := 5
				if tierThorough() {
					maxLen = 6
				}
				seen := map[string]bool{}
				for _, seq := range allSeqs(3, maxLen) {
					for _, casc := range []int{1, 2} {
						n++
						for _, p := range c10QueueOrder(seq, casc) {
							k := p[:strings.Index(p+" ", " ")+8]
							if !seen[k] {
								seen[k] = true
								probs = append(probs, fmt.Sprintf("%s [priorities %v, %d cascade(s)]", p, seq, casc))
							}
						}
					}
				}
			}
			chk := c15Check(func() []string { return probs })
			return body, func(e *vsched.Exec) (string, *vsched.Violation) {
				o, v := chk(e)
				if v != nil {
					v.Key = "queue order violated"
				}
				return fmt.Sprintf("%s configurations=%d", o, n), v
			}
		}})
	register(&Scenario{Prop: "C10", Name: "rule-order-extreme-priorities", Quick: 0, Thor: 0, FreeQuick: -1, FreeThor: -1, Horizon: 500000000,
		Desc: "3 rules x priorities {MinInt64, MinInt64+1, -1, 0, 1, MaxInt64-1, MaxInt64}^3 (every add order of every combination) x failing subset (8) x fail-on-first-error (2) = 5488 cases through ProcessEvent: ascending priority, nothing after the first failure when the flag is set",
		Make: func() (func(), func(e *vsched.Exec) (string, *vsched.Violation)) {
			var probs []string
			n := 0
			body := func() {
				probs, n = nil, 0
				seen := map[string]bool{}
				ext := []int{math.MinInt64, math.MinInt64 + 1, -1, 0, 1, math.MaxInt64 - 1, math.MaxInt64}
				for _, a := range ext {
					for _, b := range ext {
						for _, c := range ext {
							for mask := 0; mask < 8; mask++ {
								for _, fofe := range []bool{false, true} {
									n++
									for _, p := range c10RuleOrder([3]int{a, b, c}, mask, fofe, false) {
										k := strings.Fields(p)[0] + strings.Fields(p)[1]
										if !seen[k] {
											seen[k] = true
											probs = append(probs, fmt.Sprintf("%s [priorities %v failing mask %03b fofe=%v]", p, []int{a, b, c}, mask, fofe))
										}
									}
								}
							}
						}
					}
				}
			}
			chk := c15Check(func() []string { return probs })
			return body, func(e *vsched.Exec) (string, *vsched.Violation) {
				o, v := chk(e)
				if v != nil {
					v.Key = c16Key(v.Key)
				}
				return fmt.Sprintf("%s configurations=%d", o, n), v
			}
		}})
	register(&Scenario{Prop: "C10", Name: "rule-order", Quick: 0, Thor: 0, FreeQuick: -1, FreeThor: -1, Horizon: 500000000,
		Desc: "3 rules x priorities {0,1,2}^3 x failing subset (8) x fail-on-first-error (2) x failing rule adds an event first (2) = 864 cases through ProcessEvent, plus the same with a fourth matching rule that is out of the cascade's scope inserted at every position with every priority (5184 cases)",
		Make: func() (func(), func(e *vsched.Exec) (string, *vsched.Violation)) {
			var probs []string
			n := 0
			body := func() {
				probs, n = nil, 0
				seen := map[string]bool{}
				for a := 0; a < 3; a++ {
					for b := 0; b < 3; b++ {
						for c := 0; c < 3; c++ {
							for mask := 0; mask < 8; mask++ {
								for _, fofe := range []bool{false, true} {
									// an out-of-scope candidate at every insertion position
									for xpos := 0; xpos <= 3; xpos++ {
										for xprio := 0; xprio < 3; xprio++ {
											n++
											for _, p := range c10RuleOrderX([3]int{a, b, c}, mask, fofe, false, xpos, xprio) {
												k := "oos:" + strings.Fields(p)[0] + strings.Fields(p)[1]
												if !seen[k] {
													seen[k] = true
													probs = append(probs, fmt.Sprintf("%s [priorities %v failing mask %03b fofe=%v, out-of-scope rule of priority %d inserted at position %d]", p, []int{a, b, c}, mask, fofe, xprio, xpos))
												}
											}
										}
									}
									// the same after the rule set was replaced through Reset
									c10WithReset = true
									n++
									for _, p := range c10RuleOrder([3]int{a, b, c}, mask, fofe, false) {
										k := "reset:" + strings.Fields(p)[0] + strings.Fields(p)[1]
										if !seen[k] {
											seen[k] = true
											probs = append(probs, fmt.Sprintf("%s [priorities %v failing mask %03b fofe=%v, rules added after Reset]", p, []int{a, b, c}, mask, fofe))
										}
									}
									c10WithReset = false
									for _, add := range []bool{false, true} {
										n++
										for _, p := range c10RuleOrder([3]int{a, b, c}, mask, fofe, add) {
											k := strings.Fields(p)[0] + strings.Fields(p)[1]
											if !seen[k] {
												seen[k] = true
												probs = append(probs, fmt.Sprintf("%s [priorities %v failing mask %03b fofe=%v addfirst=%v]", p, []int{a, b, c}, mask, fofe, add))
											}
										}
									}
								}
							}
						}
					}
				}
			}
			chk := c15Check(func() []string { return probs })
			return body, func(e *vsched.Exec) (string, *vsched.Violation) {
				o, v := chk(e)
				if v != nil {
					v.Key = c16Key(v.Key)
				}
				return fmt.Sprintf("%s configurations=%d", o, n), v
			}
		}})
	register(&Scenario{Prop: "C10", Name: "highest-priority-bfs", Quick: 0, Thor: 0, FreeQuick: -1, FreeThor: -1, Horizon: 500000000,
		Desc: "explicit-state search over real monitors: menu {new child(p in 0..2), activate, skip, finish}, up to 4 (thorough 5) monitors, depth <= 8 (thorough 10); invariant: HighestPriority == lowest priority number among activated, unfinished monitors, else -1",
		Make: func() (func(), func(e *vsched.Exec) (string, *vsched.Violation)) {
			var probs []string
			states, trans, maxDepth := 0, 0, 0
			body := func() {
				probs = nil
				states, trans, maxDepth = 0, 0, 0
				maxMons, depth := 4, 8
				if tierThorough() {
					maxMons, depth = 5, 10
				}
				seen := map[string]bool{"root:created": true}
				frontier := [][]c10Op{{}}
				probSeen := map[string]bool{}
				for d := 1; d <= depth && len(frontier) > 0; d++ {
					var next [][]c10Op
					for _, hist := range frontier {
						mons, _, _ := c10Build(hist)
						for _, op := range c10Enabled(mons, maxMons) {
							h2 := append(append([]c10Op{}, hist...), op)
							m2, rm, prob := c10Build(h2)
							trans++
							if prob == "" {
								prob = c10Invariant(m2, rm)
							}
							if prob != "" {
								k := strings.Fields(prob)[0]
								if !probSeen[k] {
									probSeen[k] = true
									probs = append(probs, fmt.Sprintf("%s [history %v -> %s]", prob, h2, c10Canon(m2)))
								}
								continue
							}
							c := c10Canon(m2)
							if !seen[c] {
								seen[c] = true
								next = append(next, h2)
								maxDepth = d
							}
						}
					}
					frontier = next
				}
				states = len(seen)
			}
			chk := c15Check(func() []string { return probs })
			return body, func(e *vsched.Exec) (string, *vsched.Violation) {
				o, v := chk(e)
				if v != nil {
					v.Key = c16Key(strings.Split(v.Key, " [history")[0])
					if strings.HasPrefix(v.Key, "HighestPriority reports") {
						v.Key = "HighestPriority report wrong"
					}
				}
				return fmt.Sprintf("%s states=%d transitions=%d maxdepth=%d", o, states, trans, maxDepth), v
			}
		}})
	// (iv) concurrent
	for _, w := range []int{2, 3} {
		for _, pr := range [][]int{{2, 0, 1}, {1, 1, 0}, {0, 2, 0, 1}} {
			w, pr := w, pr
			if w == 3 && len(pr) > 3 {
				continue
			}
			q, t := 1, 2
			register(&Scenario{Prop: "C10", Name: fmt.Sprintf("concurrent-w%d-p%s", w, strings.Trim(strings.Replace(fmt.Sprint(pr), " ", "", -1), "[]")), Quick: q, Thor: t,
				FreeQuick: 2, FreeThor: 2, ThorShards: 4,
				Desc: fmt.Sprintf("a root rule queues child events with priorities %v on %d workers; the order in which workers take events is read off the schedule (lock order of the task queue); oracle: never an event taken while a more urgent (or older equal) event of the cascade is queued", pr, w),
				Make: func() (func(), func(e *vsched.Exec) (string, *vsched.Violation)) {
					var st *c10Conc
					var rm *engine.RootMonitor
					hpProb := ""
					body := func() {
						st = &c10Conc{prio: map[string]int{}}
						hpProb = ""
						proc := engine.NewProcessor(w)
						proc.AddRule(&engine.Rule{Name: "root", KindMatch: []string{"root"}, ScopeMatch: []string{},
							Action: func(p engine.Processor, m engine.Monitor, e *engine.Event, tid uint64) error {
								for i, pp := range pr {
									name := fmt.Sprintf("i%d-p%d", i, pp)
									st.prio[name] = pp
									cm := m.NewChildMonitor(pp)
									st.adds = append(st.adds, c10Stamp{vsched.ThreadID(), vsched.Step(), name})
									p.AddEvent(engine.NewEvent(name, []string{"item"}, nil), cm)
								}
								return nil
							}})
						proc.AddRule(&engine.Rule{Name: "item", KindMatch: []string{"item"}, ScopeMatch: []string{},
							Action: func(p engine.Processor, m engine.Monitor, e *engine.Event, tid uint64) error {
								st.starts = append(st.starts, c10Stamp{vsched.ThreadID(), vsched.Step(), e.Name()})
								vsched.Yield()
								return nil
							}})
						proc.Start()
						rm = proc.NewRootMonitor(nil, nil)
						proc.AddEventAndWait(engine.NewEvent("root", []string{"root"}, nil), rm)
						if hp := rm.HighestPriority(); hp != -1 {
							hpProb = fmt.Sprintf("HighestPriority is %d after the cascade finished", hp)
						}
						vsched.Quiesce()
						vsched.End()
					}
					check := func(e *vsched.Exec) (string, *vsched.Violation) {
						switch e.Outcome {
						case vsched.OutDeadlock, vsched.OutLivelock, vsched.OutHorizon:
							return e.Outcome, &vsched.Violation{Key: e.Outcome + ":" + e.BlockedKey(), Msg: e.Outcome + ": " + e.Detail}
						case vsched.OutPanic:
							return "panic", &vsched.Violation{Key: "panic:" + firstLineOf(e.Detail), Msg: e.Detail + "\n" + e.PanicStk}
						case vsched.OutFault:
							return "fault", &vsched.Violation{Key: "fault:" + e.Detail, Msg: e.Detail}
						}
						if len(st.starts) != len(pr) {
							return "wrong", &vsched.Violation{Key: "not all events processed", Msg: fmt.Sprintf("%d of %d child events processed", len(st.starts), len(pr))}
						}
						if p := c10PopOrderCheck(e, st); p != "" {
							return "wrong", &vsched.Violation{Key: "taken out of priority order", Msg: p}
						}
						if hpProb != "" {
							return "wrong", &vsched.Violation{Key: "HighestPriority after finish", Msg: hpProb}
						}
						var o []string
						for _, s := range st.starts {
							o = append(o, s.name)
						}
						return "ok order=" + strings.Join(o, ","), nil
					}
					return body, check
				}})
		}
	}
}

// (v) two trigger sequences at the same time: two events, each triggering its
// own rules, are processed on two workers; every rule action takes time. Each
// event's own rules - and only those - run one after another in ascending
// priority, and a failing first rule ends its own sequence only.
func init() {
	type variant struct {
		name   string
		na, nb int  // number of rules of event A / B
		failA  bool // the first rule of A fails (fail-on-first-error on)
	}
	for _, v := range []variant{{"2+2", 2, 2, false}, {"3+2", 3, 2, false}, {"2+2-firstfails", 2, 2, true}} {
		v := v
		register(&Scenario{Prop: "C10", Name: "concurrent-trigger-sequences-" + v.name, Quick: 1, Thor: 2, FreeQuick: 1, FreeThor: 1, QuickShards: 2, ThorShards: 4,
			Desc: fmt.Sprintf("events A and B trigger %d and %d rules of their own (priorities 1..n) and are processed at the same time on 2 workers, every action yields; oracle: the rules run for A are exactly A's in ascending priority (cut after a failing one), same for B", v.na, v.nb),
			Make: func() (func(), func(e *vsched.Exec) (string, *vsched.Violation)) {
				var log []string
				body := func() {
					log = nil
					proc := engine.NewProcessor(2)
					proc.SetFailOnFirstErrorInTriggerSequence(true)
					add := func(kind string, n int, fail bool) {
						for i := 1; i <= n; i++ {
							i := i
							proc.AddRule(&engine.Rule{Name: fmt.Sprintf("%s%d", kind, i), KindMatch: []string{kind}, ScopeMatch: []string{}, Priority: i,
								Action: func(p engine.Processor, m engine.Monitor, e *engine.Event, tid uint64) error {
									log = append(log, fmt.Sprintf("%s%d(%s)", kind, i, e.Name()))
									vsched.Yield()
									if fail && i == 1 {
										return fmt.Errorf("fails")
									}
									return nil
								}})
						}
					}
					add("a", v.na, v.failA)
					add("b", v.nb, false)
					proc.Start()
					proc.AddEvent(engine.NewEvent("A", []string{"a"}, nil), proc.NewRootMonitor(nil, nil))
					proc.AddEvent(engine.NewEvent("B", []string{"b"}, nil), proc.NewRootMonitor(nil, nil))
					vsched.Quiesce()
					vsched.End()
				}
				check := func(e *vsched.Exec) (string, *vsched.Violation) {
					switch e.Outcome {
					case vsched.OutDeadlock, vsched.OutLivelock, vsched.OutHorizon:
						return e.Outcome, &vsched.Violation{Key: e.Outcome + ":" + e.BlockedKey(), Msg: e.Outcome + ": " + e.Detail}
					case vsched.OutPanic:
						return "panic", &vsched.Violation{Key: "panic:" + firstLineOf(e.Detail), Msg: e.Detail + "\n" + e.PanicStk}
					case vsched.OutFault:
						return "fault", &vsched.Violation{Key: "fault:" + e.Detail, Msg: e.Detail}
					}
					per := map[string][]string{}
					for _, l := range log {
						ev := l[strings.Index(l, "(")+1 : len(l)-1]
						per[ev] = append(per[ev], l[:strings.Index(l, "(")])
					}
					want := map[string]string{}
					for _, x := range []struct {
						ev, kind string
						n        int
						fail     bool
					}{{"A", "a", v.na, v.failA}, {"B", "b", v.nb, false}} {
						var w []string
						for i := 1; i <= x.n; i++ {
							w = append(w, fmt.Sprintf("%s%d", x.kind, i))
							if x.fail {
								break
							}
						}
						want[x.ev] = strings.Join(w, ",")
					}
					for _, ev := range []string{"A", "B"} {
						if got := strings.Join(per[ev], ","); got != want[ev] {
							return "wrong", &vsched.Violation{Key: "trigger sequence of an event runs the wrong rules",
								Msg: fmt.Sprintf("rules run for event %s: [%s], expected [%s] (log %v)", ev, got, want[ev], log)}
						}
					}
					return "ok log=" + strings.Join(log, ","), nil
				}
				return body, check
			}})
	}
}
