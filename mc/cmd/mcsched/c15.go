package main

import (
	"encoding/json"
	"fmt"
	"sort"
	"strconv"
	"strings"
	"time"

	"github.com/krotik/ecal/interpreter"
	"github.com/krotik/ecal/parser"
	"github.com/krotik/ecal/util"
	"github.com/krotik/ecal/zzverif/vsched"
)

// ---------------------------------------------------------------------------
// C15 — debugging only observes; every suspended thread can be resumed

var c15Progs = []struct{ name, src string }{
	{"straight", "a := 1\nb := a + 1\nlog(b)\nc := b * 2"},
	{"func", "func f(x) {\n  y := x + 1\n  return y\n}\na := f(1)\nb := f(a)"},
	{"loop", "s := 0\nfor i in range(1, 2) {\n  s := s + i\n}\nlog(s)"},
	{"try", "try {\n  raise(\"E\", \"d\", {\"k\": 1})\n} except e {\n  r := e.type\n}\nq := 1"},
	{"nested", "func g(x) {\n  return x * 2\n}\nfunc f(x) {\n  let z := g(x)\n  return z + 1\n}\nr := f(2)"},
	{"ifelse", "a := 2\nif a > 1 {\n  b := 1\n} else {\n  b := 2\n}\nlog(a, b)"},
	{"error", "a := 1\nb := a + \"x\"\nc := 2"},
	// 12 lines, so that line numbers that are decimal prefixes of one another
	// exist (1 / 10 / 12); only used by the breakpoint-edit scenarios
	// (appended after "long" so that the indices used by the selected configurations stay valid)
	{"long", "a := 1\nb := 2\nc := 3\nd := 4\ne := 5\nf := 6\ng := 7\nh := 8\ni := 9\nj := 10\nk := 11\nl := a + k"},
	// a call whose argument is another call (the debugger's step-in special case: stop before entering f)
	{"argcall", "func g(x) {\n  return x * 2\n}\nfunc f(x) {\n  return x + 1\n}\nr := f(g(2))\nlog(r)"},
	// a thread suspended inside nested block scopes of a function
	{"blocks", "func f(x) {\n  if x > 0 {\n    let y := x\n    for i in range(1, 2) {\n      y := y + i\n    }\n    return y\n  }\n}\na := f(1)"},
	// recursion deeper than the initial capacity (10) of the debugger's per-thread call stack slices
	{"deeprec", "func down(n) {\n  if n == 0 {\n    return 0\n  }\n  return 1 + down(n - 1)\n}\nr := down(11)\nlog(r)"},
}

func c15Lines(src string) int { return strings.Count(src, "\n") + 1 }

type c15Obs struct {
	result string
	log    string
	scope  string
}

func c15Observe(en *ienv, res interface{}, err error) c15Obs {
	js, _ := json.Marshal(en.vs.ToJSONObject())
	e := ""
	if err != nil {
		e = err.Error()
	}
	return c15Obs{fmt.Sprintf("%v / %v", res, e), strings.Join(en.log.Slice(), "\n"), string(js)}
}

// lineTracer is a harness debugger that only records the line of every visit.
type lineTracer struct {
	util.ECALDebugger
	lines []int
}

func (lt *lineTracer) VisitState(node *parser.ASTNode, vs parser.Scope, tid uint64) util.TraceableRuntimeError {
	if node.Token != nil {
		lt.lines = append(lt.lines, node.Token.Lline)
	}
	return nil
}
func (lt *lineTracer) VisitStepInState(node *parser.ASTNode, vs parser.Scope, tid uint64) util.TraceableRuntimeError {
	return nil
}
func (lt *lineTracer) VisitStepOutState(node *parser.ASTNode, vs parser.Scope, tid uint64, soErr error) util.TraceableRuntimeError {
	return nil
}
func (lt *lineTracer) RecordThreadFinished(tid uint64) {}

// visitCounter decorates the real debugger (util.ECALDebugger is a public
// interface): it counts the state visits of every thread so that the driver
// can tell whether a thread made progress between two reported suspensions.
type visitCounter struct {
	util.ECALDebugger
	visits map[uint64]int
}

func (v *visitCounter) VisitState(node *parser.ASTNode, vs parser.Scope, tid uint64) util.TraceableRuntimeError {
	v.visits[tid]++
	return v.ECALDebugger.VisitState(node, vs, tid)
}

func (v *visitCounter) VisitStepOutState(node *parser.ASTNode, vs parser.Scope, tid uint64, soErr error) util.TraceableRuntimeError {
	v.visits[tid]++
	return v.ECALDebugger.VisitStepOutState(node, vs, tid, soErr)
}

// c15Run performs one reference run and one debugged run of a configuration
// and returns the list of problems found.
type c15Cfg struct {
	prog           int
	breaks         []int    // lines with an active breakpoint
	script         []string // commands for successive suspensions (then: resume)
	stop           bool     // StopThreads at the first suspension instead of a continue
	stopWait       int      // duration handed to StopThreads (0: do not wait for the threads to settle)
	noBreakOnError bool
	edits          []string // breakpoint commands issued after the initial ones
}

func (c c15Cfg) String() string {
	return fmt.Sprintf("%s breaks=%v script=%v stop=%v", c15Progs[c.prog].name, c.breaks, c.script, c.stop)
}

type c15Result struct {
	probs     []string
	suspLines []int
	nsusp     int
	// the breakpoint table as reported by status after the edits
	breakStatus string
}

// c15RefCache holds the undebugged observation per program; only the
// breakpoint-edit scenario (thousands of runs of one program) switches it on.
var c15RefCache map[int]c15Obs

func c15Run(c c15Cfg) *c15Result {
	r := &c15Result{}
	src := c15Progs[c.prog].src
	// reference: plain run (deterministic; computed once per program and execution)
	want, cached := c15RefCache[c.prog]
	if !cached {
		ref := newEnv(1)
		rres, rerr := func() (interface{}, error) {
			ast, err := parser.ParseWithRuntime("v", src, ref.erp)
			if err != nil {
				return nil, err
			}
			if err := ast.Runtime.Validate(); err != nil {
				return nil, err
			}
			return ast.Runtime.Eval(ref.vs, make(map[string]interface{}), ref.erp.NewThreadID())
		}()
		want = c15Observe(ref, rres, rerr)
		if c15RefCache != nil {
			c15RefCache[c.prog] = want
		}
	}

	en := newEnv(1)
	vc := &visitCounter{ECALDebugger: interpreter.NewECALDebugger(en.vs), visits: map[uint64]int{}}
	var dbg util.ECALDebugger = vc
	en.erp.Debugger = dbg
	_ = vc
	if c.noBreakOnError {
		dbg.BreakOnError(false)
	}
	for _, l := range c.breaks {
		if _, err := dbg.HandleInput(fmt.Sprintf("break v:%d", l)); err != nil {
			r.probs = append(r.probs, "break command failed: "+err.Error())
		}
	}
	for _, e := range c.edits {
		if _, err := dbg.HandleInput(e); err != nil {
			r.probs = append(r.probs, "breakpoint command failed: "+e+": "+err.Error())
		}
	}
	if c.edits != nil {
		if st, err := dbg.HandleInput("status"); err == nil {
			r.breakStatus = fmt.Sprint(st.(map[string]interface{})["breakpoints"])
		}
	}
	ast, err := parser.ParseWithRuntime("v", src, en.erp)
	if err == nil {
		err = ast.Runtime.Validate()
	}
	if err != nil {
		r.probs = append(r.probs, "setup: "+err.Error())
		return r
	}
	done := false
	var got c15Obs
	finishedNormally := false
	tid := en.erp.NewThreadID()
	var wg vsched.WaitGroup
	wg.Add(1)
	vsched.GoNamed("T", func() {
		defer func() {
			done = true
			wg.Done()
		}()
		res, err := ast.Runtime.Eval(en.vs, make(map[string]interface{}), tid)
		dbg.RecordThreadFinished(tid)
		got = c15Observe(en, res, err)
		finishedNormally = true
	})
	step := 0
	stopped := false
	for !done {
		st, err := dbg.HandleInput("status")
		if err != nil {
			r.probs = append(r.probs, "status failed: "+err.Error())
			break
		}
		threads, _ := st.(map[string]interface{})["threads"].(map[string]map[string]interface{})
		var ids []string
		for id := range threads {
			ids = append(ids, id)
		}
		sort.Strings(ids)
		for _, id := range ids {
			if run, ok := threads[id]["threadRunning"]; ok && !run.(bool) {
				// reported suspended
				r.nsusp++
				if d, err := dbg.HandleInput("describe " + id); err == nil && d != nil {
					if m, ok := d.(map[string]interface{}); ok {
						if n, ok := m["node"].(map[string]interface{}); ok {
							if l, ok := n["line"].(int); ok {
								r.suspLines = append(r.suspLines, l)
							}
						}
					}
				}
				if c.stop {
					dbg.StopThreads(time.Duration(c.stopWait))
					stopped = true
				} else {
					cmd := "resume"
					if step < len(c.script) {
						cmd = c.script[step]
					}
					step++
					if _, err := dbg.HandleInput(fmt.Sprintf("cont %s %s", id, cmd)); err != nil {
						r.probs = append(r.probs, "cont failed: "+err.Error())
					}
				}
			}
		}
		if r.nsusp > 60 {
			r.probs = append(r.probs, "more than 60 suspensions")
			break
		}
		vsched.Sleep(1)
	}
	wg.Wait()
	if !stopped {
		if !finishedNormally {
			r.probs = append(r.probs, "program thread ended without finishing")
		} else {
			if got.result != want.result {
				r.probs = append(r.probs, fmt.Sprintf("result differs from the undebugged run: %q vs %q", got.result, want.result))
			}
			if got.log != want.log {
				r.probs = append(r.probs, fmt.Sprintf("log output differs from the undebugged run: %q vs %q", got.log, want.log))
			}
			if got.scope != want.scope {
				r.probs = append(r.probs, fmt.Sprintf("final variables differ from the undebugged run: %s vs %s", got.scope, want.scope))
			}
		}
	}
	return r
}

// c15LineTrace returns the sequence of visited lines of a program.
func c15LineTrace(prog int) []int {
	en := newEnv(1)
	lt := &lineTracer{ECALDebugger: interpreter.NewECALDebugger(nil)}
	en.erp.Debugger = lt
	ast, err := parser.ParseWithRuntime("v", c15Progs[prog].src, en.erp)
	if err != nil || ast.Runtime.Validate() != nil {
		return nil
	}
	ast.Runtime.Eval(en.vs, make(map[string]interface{}), en.erp.NewThreadID())
	return lt.lines
}

// c15Expected computes the suspension lines for a resume-only script: the
// starts of the maximal same-line runs of the line trace whose line carries an
// active breakpoint.
func c15Expected(trace []int, breaks []int) []int {
	bp := map[int]bool{}
	for _, b := range breaks {
		bp[b] = true
	}
	var out []int
	prev := -1
	for _, l := range trace {
		if l != prev && bp[l] {
			out = append(out, l)
		}
		prev = l
	}
	return out
}

func c15Check(getProbs func() []string) func(e *vsched.Exec) (string, *vsched.Violation) {
	return func(e *vsched.Exec) (string, *vsched.Violation) {
		switch e.Outcome {
		case vsched.OutDeadlock, vsched.OutLivelock, vsched.OutHorizon:
			return e.Outcome, &vsched.Violation{Key: e.Outcome + ":" + e.BlockedKey(), Msg: e.Outcome + ": " + e.Detail + " | " + strings.Join(getProbs(), ";")}
		case vsched.OutPanic:
			return "panic", &vsched.Violation{Key: "panic:" + firstLineOf(e.Detail), Msg: e.Detail + "\n" + e.PanicStk}
		case vsched.OutFault:
			return "fault", &vsched.Violation{Key: "fault:" + e.Detail, Msg: e.Detail}
		}
		if p := getProbs(); len(p) > 0 {
			return "wrong", &vsched.Violation{Key: p[0], Msg: strings.Join(p, "; ")}
		}
		return "ok", nil
	}
}

func subsetsUpTo(n, k int) [][]int {
	out := [][]int{{}}
	for i := 1; i <= n; i++ {
		out = append(out, []int{i})
	}
	if k >= 2 {
		for i := 1; i <= n; i++ {
			for j := i + 1; j <= n; j++ {
				out = append(out, []int{i, j})
			}
		}
	}
	if k >= 3 {
		for i := 1; i <= n; i++ {
			for j := i + 1; j <= n; j++ {
				for l := j + 1; l <= n; l++ {
					out = append(out, []int{i, j, l})
				}
			}
		}
	}
	return out
}

func scriptsUpTo(k int) [][]string {
	cmds := []string{"resume", "stepin", "stepover", "stepout"}
	out := [][]string{{}}
	prev := [][]string{{}}
	for d := 0; d < k; d++ {
		var next [][]string
		for _, p := range prev {
			for _, c := range cmds {
				n := append(append([]string{}, p...), c)
				next = append(next, n)
			}
		}
		out = append(out, next...)
		prev = next
	}
	return out
}

func init() {
	// (1) the whole product breakpoint sets x command scripts under the default
	// schedule (one execution per program that runs every configuration on
	// fresh objects; an Engine-B style enumeration inside the scheduler)
	for pi := range c15Progs {
		pi := pi
		if c15Progs[pi].name == "long" {
			continue
		}
		register(&Scenario{Prop: "C15", Name: "bulk-" + c15Progs[pi].name, Quick: 0, Thor: 0, FreeQuick: -1, FreeThor: -1, Horizon: 50000000,
			Desc: "program " + c15Progs[pi].name + ": every breakpoint subset (<= 2 lines quick, <= 3 thorough) x every command script of length <= 2 (3 thorough) over {resume, stepin, stepover, stepout}, plus stop-all variants, under the default schedule; differential oracle against the undebugged run and the line trace",
			Make: func() (func(), func(e *vsched.Exec) (string, *vsched.Violation)) {
				var probs []string
				cfgs := 0
				body := func() {
					probs = nil
					n := c15Lines(c15Progs[pi].src)
					trace := c15LineTrace(pi)
					cfgs = 0
					for _, bs := range subsetsUpTo(n, 2) {
						for _, sc := range scriptsUpTo(2) {
							cfg := c15Cfg{prog: pi, breaks: bs, script: sc}
							r := c15Run(cfg)
							cfgs++
							for _, p := range r.probs {
								probs = append(probs, p+" ["+cfg.String()+"]")
							}
							resumeOnly := true
							for _, c := range sc {
								if c != "resume" {
									resumeOnly = false
								}
							}
							if resumeOnly && len(sc) <= 1 {
								// the suspension lines are exactly determined when break-on-error is off
								cfg2 := cfg
								cfg2.noBreakOnError = true
								r2 := c15Run(cfg2)
								cfgs++
								for _, p := range r2.probs {
									probs = append(probs, p+" ["+cfg2.String()+" break-on-error off]")
								}
								if want := c15Expected(trace, bs); len(r2.probs) == 0 && fmt.Sprint(want) != fmt.Sprint(r2.suspLines) {
									probs = append(probs, fmt.Sprintf("suspended at lines %v, expected %v [%s, break-on-error off]", r2.suspLines, want, cfg.String()))
								}
							}
						}
						// stop-all variant
						cfg := c15Cfg{prog: pi, breaks: bs, stop: true}
						r := c15Run(cfg)
						for _, p := range r.probs {
							probs = append(probs, p+" ["+cfg.String()+"]")
						}
						// stop-all waiting for the threads to settle (StopThreads(d > 0))
						cfgW := c15Cfg{prog: pi, breaks: bs, stop: true, stopWait: 1000}
						for _, p := range c15Run(cfgW).probs {
							probs = append(probs, p+" ["+cfgW.String()+" wait]")
						}
					}
					vsched.Logf("configurations=%d", cfgs)
				}
				chk := c15Check(func() []string { return probs })
				return body, func(e *vsched.Exec) (string, *vsched.Violation) {
					o, v := chk(e)
					return fmt.Sprintf("%s configurations=%d", o, cfgs), v
				}
			}})
	}
	// (2) all timings of the continue command relative to the thread reaching
	// its wait: selected configurations under every schedule within the bound
	type sel struct {
		prog   int
		breaks []int
		script []string
		stop   bool
		nobe   bool
	}
	sels := []sel{
		{0, []int{2}, nil, false, false},
		{0, []int{1, 3}, nil, false, false},
		{0, []int{2}, []string{"stepover"}, false, false},
		{1, []int{2}, nil, false, false},
		{1, []int{5}, []string{"stepin", "stepout"}, false, false},
		{2, []int{3}, nil, false, false},
		{3, nil, nil, false, false},
		{4, []int{2}, []string{"stepout"}, false, false},
		{0, []int{2}, nil, true, false},
		{1, []int{2}, nil, true, false},
		{8, []int{7}, []string{"stepin", "stepout"}, false, false},
		{8, []int{7}, []string{"stepin", "stepin"}, false, false},
		{9, []int{5}, nil, false, false},
	}
	// the same resume-only configurations with break-on-error off: there every
	// suspension episode needs exactly one continue, so the sequence of
	// suspension lines (and thereby the number of continues the console had to
	// send) must equal the one derived from the line trace under EVERY schedule;
	// a continue that is lost and has to be repeated shows up as an extra entry
	var extra []sel
	for _, s := range sels {
		if len(s.script) == 0 && !s.stop && len(s.breaks) > 0 {
			x := s
			x.nobe = true
			extra = append(extra, x)
		}
	}
	extra = append(extra, sel{prog: 4, breaks: []int{2, 5}, nobe: true}, sel{prog: 5, breaks: []int{1, 3}, nobe: true})
	sels = append(sels, extra...)
	for _, s := range sels {
		s := s
		cfg := c15Cfg{prog: s.prog, breaks: s.breaks, script: s.script, stop: s.stop, noBreakOnError: s.nobe}
		name := fmt.Sprintf("sched-%s-b%v-%s", c15Progs[s.prog].name, strings.Trim(strings.Replace(fmt.Sprint(s.breaks), " ", ",", -1), "[]"), strings.Join(s.script, ","))
		if s.stop {
			name += "-stop"
		}
		if s.nobe {
			name += "-exactlines"
		}
		register(&Scenario{Prop: "C15", Name: name, Quick: 2, Thor: 3, FreeQuick: 2, FreeThor: 2, ThorShards: 4,
			Desc: "all schedules within the bound of: " + cfg.String(),
			Make: func() (func(), func(e *vsched.Exec) (string, *vsched.Violation)) {
				var probs []string
				body := func() {
					probs = nil
					var trace []int
					if cfg.noBreakOnError {
						trace = c15LineTrace(cfg.prog)
					}
					r := c15Run(cfg)
					probs = r.probs
					if cfg.noBreakOnError && len(probs) == 0 {
						if want := c15Expected(trace, cfg.breaks); fmt.Sprint(want) != fmt.Sprint(r.suspLines) {
							probs = append(probs, fmt.Sprintf("suspension episodes differ: the console had to answer suspensions at lines %v, the program has suspensions at lines %v (a repeated line means a continue was lost and had to be sent again)", r.suspLines, want))
						}
					}
				}
				return body, c15Check(func() []string { return probs })
			}})
	}
	_ = strconv.Itoa
}

// ---------------------------------------------------------------------------
// breakpoint edit histories: "setting, disabling or removing any breakpoints".
// The reference model of the table is a map; the thread must suspend exactly at
// the lines the model says are active.

var c15EditCmds = func() []string {
	var out []string
	for _, l := range []int{1, 2, 10, 12} {
		out = append(out, fmt.Sprintf("break v:%d", l), fmt.Sprintf("rmbreak v:%d", l), fmt.Sprintf("disablebreak v:%d", l))
	}
	// whole-source removal, and a second source whose name has "v" as a prefix
	return append(out, "rmbreak v", "break vv:1", "rmbreak vv")
}()

func c15EditModel(edits []string) (table map[string]bool, active []int) {
	table = map[string]bool{}
	for _, e := range edits {
		f := strings.Fields(e)
		switch {
		case f[0] == "break":
			table[f[1]] = true
		case f[0] == "disablebreak":
			table[f[1]] = false
		case f[0] == "rmbreak" && strings.Contains(f[1], ":"):
			delete(table, f[1])
		case f[0] == "rmbreak":
			for k := range table {
				if strings.Split(k, ":")[0] == f[1] {
					delete(table, k)
				}
			}
		}
	}
	for k, on := range table {
		var l int
		if on && strings.HasPrefix(k, "v:") {
			fmt.Sscanf(k[2:], "%d", &l)
			active = append(active, l)
		}
	}
	sort.Ints(active)
	return
}

func init() {
	prog := -1
	for i := range c15Progs {
		if c15Progs[i].name == "long" {
			prog = i
		}
	}
	register(&Scenario{Prop: "C15", Name: "bulk-breakpoint-edits", Quick: 0, Thor: 0, FreeQuick: -1, FreeThor: -1, Horizon: 50000000,
		Desc: "12-line program: every history of <= 2 (thorough 3) breakpoint commands over {break, rmbreak, disablebreak} x lines {1, 2, 10, 12} + {rmbreak v, break vv:1, rmbreak vv}, and every history of <= 4 commands over the reduced alphabet {break, rmbreak, disablebreak} x lines {2, 10} + {rmbreak v}; the table reported by status must equal the reference map and the thread must suspend (break-on-error off, resume only) exactly at the lines the reference says are active; differential oracle against the undebugged run",
		Make: func() (func(), func(e *vsched.Exec) (string, *vsched.Violation)) {
			var probs []string
			cfgs := 0
			body := func() {
				probs = nil
				cfgs = 0
				c15RefCache = map[int]c15Obs{}
				defer func() { c15RefCache = nil }()
				trace := c15LineTrace(prog)
				depth := 2
				if tierThorough() {
					depth = 3
				}
				var rec func(h []string)
				rec = func(h []string) {
					cfg := c15Cfg{prog: prog, edits: append([]string{}, h...), noBreakOnError: true}
					r := c15Run(cfg)
					cfgs++
					table, active := c15EditModel(h)
					for _, p := range r.probs {
						probs = append(probs, p+fmt.Sprintf(" [breakpoint commands %q]", h))
					}
					if want := fmt.Sprint(table); r.breakStatus != want {
						probs = append(probs, fmt.Sprintf("breakpoint table after %q is %s, expected %s", h, r.breakStatus, want))
					}
					if want := c15Expected(trace, active); len(r.probs) == 0 && fmt.Sprint(want) != fmt.Sprint(r.suspLines) {
						probs = append(probs, fmt.Sprintf("after breakpoint commands %q the thread suspended at lines %v, expected %v", h, r.suspLines, want))
					}
					if len(h) == depth {
						return
					}
					for _, c := range c15EditCmds {
						rec(append(h, c))
					}
				}
				rec([]string{})
				// longer histories over a reduced alphabet (two lines, whole-source removal):
				// a derived count or cache that drifts needs repeated commands on one line
				reduced := []string{"break v:2", "rmbreak v:2", "disablebreak v:2", "break v:10", "rmbreak v:10", "disablebreak v:10", "rmbreak v"}
				full := c15EditCmds
				c15EditCmds = reduced
				lo := depth
				depth = 4 // both tiers: 7^3 + 7^4 histories (thorough already has the full alphabet to depth 3)
				var rec2 func(h []string)
				rec2 = func(h []string) {
					if len(h) > lo {
						rec(h) // rec checks h and, below the depth, its extensions
						return
					}
					for _, c := range reduced {
						rec2(append(append([]string{}, h...), c))
					}
				}
				rec2([]string{})
				c15EditCmds = full
				vsched.Logf("configurations=%d", cfgs)
			}
			chk := c15Check(func() []string { return probs })
			return body, func(e *vsched.Exec) (string, *vsched.Violation) {
				o, v := chk(e)
				if v != nil && strings.Contains(v.Key, "breakpoint") {
					v.Key = "breakpoint bookkeeping differs from the reference table"
				}
				return fmt.Sprintf("%s configurations=%d", o, cfgs), v
			}
		}})
}
