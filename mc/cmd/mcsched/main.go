// mcsched is the Engine-A worker: it is compiled against the instrumented ecal
// packages (go build -overlay) and explores all schedules of one scenario up
// to a preemption bound.
package main

import (
	"encoding/json"
	"flag"
	"fmt"
	"os"
	"sort"
	"strings"
	"time"

	"github.com/krotik/ecal/zzverif/vsched"
)

// Scenario is one closed driver plus its oracle.
type Scenario struct {
	Prop  string
	Name  string
	Quick int // preemption bound in the quick tier (-1: not run)
	Thor  int // preemption bound in the thorough tier
	Desc  string
	// MustSee: an observation containing this string must occur in at least one
	// execution (non-vacuity / "a schedule with both occupied is found").
	MustSee                 string
	QuickShards, ThorShards int
	// Isolate: the scenario touches process-global state that a violating
	// execution can corrupt for good; the worker stops at its first violation.
	Isolate             bool
	Horizon             int // max scheduling points per execution (0 = default)
	FreeQuick, FreeThor int // free-choice bound per tier (0 = default 3; use -1 for "0")
	// New returns the body and the oracle for one execution.
	// RacesInCheck: the scenario's own oracle evaluates Exec.Races
	RacesInCheck bool
	Make         func() (body func(), check func(e *vsched.Exec) (string, *vsched.Violation))
}

var scenarios []*Scenario

func register(s *Scenario) { scenarios = append(scenarios, s) }

// Result is what one worker run reports to the check driver.
type Result struct {
	Prop        string              `json:"prop"`
	Engine      string              `json:"engine"`
	Scenario    string              `json:"scenario"`
	Desc        string              `json:"desc"`
	Bound       int                 `json:"bound"`
	FreeBound   int                 `json:"free_bound"`
	Shard       int                 `json:"shard"`
	NShards     int                 `json:"nshards"`
	Execs       int64               `json:"executions"`
	Transitions int64               `json:"transitions"`
	States      int                 `json:"states"`
	StateKeys   []uint64            `json:"state_keys,omitempty"`
	MaxPoints   int                 `json:"max_points"`
	Outcomes    map[string]int64    `json:"outcomes"`
	Capped      string              `json:"capped,omitempty"`
	HarnessErr  string              `json:"harness_error,omitempty"`
	Violations  []*vsched.Violation `json:"violations,omitempty"`
	Sample      []string            `json:"sample_trace,omitempty"`
	WallS       float64             `json:"wall_s"`
	Races       []string            `json:"races,omitempty"`
	Longest     []int               `json:"longest_prefix,omitempty"`
}

// benignRaces: unordered access pairs that exist on the unchanged tree and that
// cannot affect any listed property (see DESIGN.md 12.3). Keys carry the field
// and both functions, so another unordered access to the same field from a
// different function, or to a different field, is still reported.
var benignRaces = map[string]string{
	"DefaultTaskQueue.queue: read@engine/pool.(*DefaultTaskQueue).Size / write@engine/pool.(*DefaultTaskQueue).Push":                   "the queue-filling heuristics of AddTask / getTask read the queue length under RegulationLock while Push / Pop run under queueLock: a single length word, used only to decide whether to print a warning",
	"DefaultTaskQueue.queue: read@engine/pool.(*DefaultTaskQueue).Size / write@engine/pool.(*DefaultTaskQueue).Pop":                    "as above",
	"ThreadPool.workerIdleMap: read@engine/pool.(*ThreadPool).SetWorkerCount / write@engine/pool.(*ThreadPoolWorker).run":              "SetWorkerCount polls len(workerIdleMap) without the lock until a worker is idle: a single word read in a sleep loop, no map access",
	"varsScope.parent: read@scope.(*varsScope).Parent / write@scope.SetParentOfScope":                                                  "the parent is set once by the program thread before the scope is handed to the debugger (through the interrogation state's unlocked vs field); the console reads it while that thread is suspended",
	"varsScope.parent: read@scope.(*varsScope).Parent / write@scope.(*varsScope).NewChild":                                             "as above (set once under the scope lock before the child is published)",
	"ecalDebugger.lastVisit: write@interpreter.(*ecalDebugger).VisitState / write@interpreter.(*ecalDebugger).VisitState":              "timestamp word written under the read lock by every visiting thread; only read by the settle-wait heuristic of StopThreads(d > 0)",
	"ecalDebugger.lastVisit: read@interpreter.(*ecalDebugger).StopThreads / write@interpreter.(*ecalDebugger).VisitState":              "as above",
	"ecalDebugger.mutexLog: read@interpreter.(*ecalDebugger).LockState / write@interpreter.(*ecalDebugger).SetLockingState":            "set once (check-then-set of the same provider-owned pointer by every thread's first visit), then only read",
	"ecalDebugger.mutexeOwners: read@interpreter.(*ecalDebugger).LockState / write@interpreter.(*ecalDebugger).SetLockingState":        "as above",
	"ecalDebugger.mutexeOwners: read@interpreter.(*ecalDebugger).SetLockingState / write@interpreter.(*ecalDebugger).SetLockingState":  "as above",
	"ecalDebugger.mutexeOwners: write@interpreter.(*ecalDebugger).SetLockingState / write@interpreter.(*ecalDebugger).SetLockingState": "as above",
	"ecalDebugger.mutexLog: write@interpreter.(*ecalDebugger).SetLockingState / write@interpreter.(*ecalDebugger).SetLockingState":     "as above",
	"ecalDebugger.threadpool: read@interpreter.(*ecalDebugger).LockState / write@interpreter.(*ecalDebugger).SetThreadPool":            "as above (SetThreadPool)",
	"ecalDebugger.threadpool: read@interpreter.(*ecalDebugger).SetThreadPool / write@interpreter.(*ecalDebugger).SetThreadPool":        "as above (SetThreadPool)",
	"ecalDebugger.threadpool: write@interpreter.(*ecalDebugger).SetThreadPool / write@interpreter.(*ecalDebugger).SetThreadPool":       "as above (SetThreadPool)",
}

var tierFlag = flag.String("tier", "quick", "tier (scenarios that enumerate inside one execution use it for their depth)")

func tierThorough() bool { return *tierFlag == "thorough" }

func main() {
	list := flag.Bool("list", false, "list scenarios as JSON")
	prop := flag.String("prop", "", "property id")
	name := flag.String("scenario", "", "scenario name")
	bound := flag.Int("bound", 1, "preemption bound")
	fbound := flag.Int("fbound", 3, "bound on non-default choices at free (non-preemptive) points; -1 = unbounded")
	shard := flag.Int("shard", 0, "")
	nshards := flag.Int("nshards", 1, "")
	budget := flag.Float64("budget", 0, "wall-clock budget in seconds (0 = none)")
	maxExecs := flag.Int64("maxexecs", 0, "")
	replay := flag.String("replay", "", "comma separated choice list to replay once")
	release := flag.Bool("release-points", false, "also schedule at Unlock/Done")
	verbose := flag.Bool("v", false, "")
	flag.Parse()

	if *list {
		type item struct {
			Prop, Name, Desc        string
			Quick, Thor             int
			QuickShards, ThorShards int
			FreeQuick, FreeThor     int
		}
		var out []item
		for _, s := range scenarios {
			if *prop == "" || s.Prop == *prop {
				fq, ft := s.FreeQuick, s.FreeThor
				if fq == 0 {
					fq = 3
				} else if fq < 0 {
					fq = 0
				}
				if ft == 0 {
					ft = 3
				} else if ft < 0 {
					ft = 0
				}
				out = append(out, item{s.Prop, s.Name, s.Desc, s.Quick, s.Thor, s.QuickShards, s.ThorShards, fq, ft})
			}
		}
		json.NewEncoder(os.Stdout).Encode(out)
		return
	}
	var sc *Scenario
	for _, s := range scenarios {
		if s.Prop == *prop && s.Name == *name {
			sc = s
		}
	}
	if sc == nil {
		fmt.Fprintf(os.Stderr, "unknown scenario %s/%s\n", *prop, *name)
		os.Exit(2)
	}
	var body func()
	var check func(e *vsched.Exec) (string, *vsched.Violation)
	wrapBody := func() {
		b, c := sc.Make()
		check = c
		b()
	}
	_ = body
	wrapCheck := func(e *vsched.Exec) (string, *vsched.Violation) {
		obs, v := check(e)
		var races, details []string
		for i, r := range e.Races {
			if _, ok := benignRaces[r]; !ok {
				races = append(races, r)
				details = append(details, e.RaceDetail[i])
			}
		}
		if v == nil && len(races) > 0 && !sc.RacesInCheck {
			// the happens-before race check over package-level variables,
			// escaping closure variables and fields of lock-carrying structs
			// applies to every scenario
			v = &vsched.Violation{Key: "data race: " + races[0], Msg: "accesses not ordered by any synchronisation: " + strings.Join(details, " ; ")}
			obs = "race"
		}
		if v != nil {
			v.Key = sc.Name + ":" + v.Key
		}
		return obs, v
	}
	if *replay != "" {
		var pre []int
		if *replay != "-" {
			for _, f := range strings.Split(*replay, ",") {
				var x int
				fmt.Sscan(f, &x)
				pre = append(pre, x)
			}
		}
		e := vsched.Run(pre, &vsched.Config{PointAtRelease: *release, Horizon: sc.Horizon}, wrapBody)
		obs, v := wrapCheck(e)
		for _, l := range e.TraceStrings(0) {
			fmt.Println(l)
		}
		fmt.Println("outcome:", e.Outcome, e.Detail)
		fmt.Println("observation:", obs)
		for _, l := range e.Log {
			fmt.Println("log:", l)
		}
		if e.PanicStk != "" {
			fmt.Println(e.PanicStk)
		}
		if v != nil {
			fmt.Println("VIOLATION:", v.Key, v.Msg)
			os.Exit(1)
		}
		return
	}
	x := &vsched.Explorer{Name: sc.Name, Bound: *bound, FreeBound: *fbound, Body: wrapBody, Check: wrapCheck,
		Shard: *shard, NShards: *nshards, MaxExecs: *maxExecs}
	x.Cfg.PointAtRelease = *release
	x.Cfg.Horizon = sc.Horizon
	if sc.Isolate {
		x.MaxViol = 1
	}
	start := time.Now()
	if *budget > 0 {
		x.Deadline = start.Add(time.Duration(*budget * float64(time.Second)))
	}
	x.Explore()
	if sc.MustSee != "" && x.Capped == "" && x.HarnessErr == "" && *nshards == 1 {
		seen := false
		for o := range x.Outcomes {
			if strings.Contains(o, sc.MustSee) {
				seen = true
			}
		}
		if !seen {
			x.Viols = append(x.Viols, &vsched.Violation{Key: sc.Name + ":never-observed:" + sc.MustSee,
				Msg: "no explored schedule showed the required observation " + sc.MustSee})
		}
	}
	res := &Result{Prop: sc.Prop, Engine: "A", Scenario: sc.Name, Desc: sc.Desc, Bound: *bound, FreeBound: *fbound, Shard: *shard, NShards: *nshards,
		Execs: x.Execs, Transitions: x.Transitions, States: len(x.States), MaxPoints: x.MaxPoints,
		Outcomes: x.Outcomes, Capped: x.Capped, HarnessErr: x.HarnessErr, Violations: x.Viols,
		Longest: x.Longest, Sample: x.Sample, WallS: time.Since(start).Seconds()}
	for k := range x.States {
		res.StateKeys = append(res.StateKeys, k)
	}
	sort.Slice(res.StateKeys, func(i, j int) bool { return res.StateKeys[i] < res.StateKeys[j] })
	if *verbose {
		res.StateKeys = nil
		js, _ := json.MarshalIndent(res, "", " ")
		fmt.Println(string(js))
		return
	}
	json.NewEncoder(os.Stdout).Encode(res)
}
