package main

import (
	"fmt"
	"sort"
	"strings"

	"github.com/krotik/ecal/interpreter"
	"github.com/krotik/ecal/parser"
	"github.com/krotik/ecal/util"
	"github.com/krotik/ecal/zzverif/vsched"
)

// ---------------------------------------------------------------------------
// C18 (debugger part) — a breakpoint refers to the source AND line the user set
// it on. A main source calls a function of an imported module; the call and the
// function's first statement have the same line number in their sources, so a
// position that is reduced to its line number confuses the two.

const c18Main = "import \"mod\" as m\nr := m.f(1)\nlog(r)\nq := m.g(r)"
const c18Mod = "func f(n) {\n  return n + 1\n}\nfunc g(n) {\n  let k := n\n  return k\n}"

// c18Run starts the program with the given breakpoints ("source:line"), resumes
// every suspension and returns the places of suspension.
func c18Run(bps []string) (places []string, probs []string) {
	en := newEnv(1)
	en.erp.ImportLocator = &util.MemoryImportLocator{Files: map[string]string{"mod": c18Mod}}
	dbg := interpreter.NewECALDebugger(en.vs)
	en.erp.Debugger = dbg
	dbg.BreakOnError(false)
	for _, b := range bps {
		if _, err := dbg.HandleInput("break " + b); err != nil {
			probs = append(probs, "break failed: "+err.Error())
		}
	}
	ast, err := parser.ParseWithRuntime("main", c18Main, en.erp)
	if err == nil {
		err = ast.Runtime.Validate()
	}
	if err != nil {
		return nil, []string{"setup: " + err.Error()}
	}
	done := false
	var res interface{}
	var rerr error
	tid := en.erp.NewThreadID()
	var wg vsched.WaitGroup
	wg.Add(1)
	vsched.GoNamed("T", func() {
		defer func() { done = true; wg.Done() }()
		res, rerr = ast.Runtime.Eval(en.vs, make(map[string]interface{}), tid)
		dbg.RecordThreadFinished(tid)
	})
	for n := 0; !done; n++ {
		st, err := dbg.HandleInput("status")
		if err != nil {
			probs = append(probs, "status failed: "+err.Error())
			break
		}
		threads, _ := st.(map[string]interface{})["threads"].(map[string]map[string]interface{})
		var ids []string
		for id := range threads {
			ids = append(ids, id)
		}
		sort.Strings(ids)
		for _, id := range ids {
			if run, ok := threads[id]["threadRunning"]; ok && !run.(bool) {
				if d, err := dbg.HandleInput("describe " + id); err == nil && d != nil {
					if m, ok := d.(map[string]interface{}); ok {
						if nd, ok := m["node"].(map[string]interface{}); ok {
							places = append(places, fmt.Sprintf("%v:%v", nd["source"], nd["line"]))
						}
					}
				}
				dbg.HandleInput("cont " + id + " resume")
			}
		}
		if len(places) > 40 {
			probs = append(probs, "more than 40 suspensions")
			break
		}
		vsched.Sleep(1)
	}
	wg.Wait()
	if rerr != nil {
		probs = append(probs, "program failed: "+rerr.Error())
	}
	_ = res
	if v, _, _ := en.vs.GetValue("q"); fmt.Sprint(v) != "2" {
		probs = append(probs, fmt.Sprintf("debugged run computed q=%v instead of 2", v))
	}
	return
}

func init() {
	// the thread visits main:1, main:2, mod:2 (inside f), main:2 (back), main:3,
	// main:4, mod:5, mod:6 (inside g), main:4; it must suspend whenever it
	// arrives at an active breakpoint from a different place
	// (the import on main:1 evaluates the module's two declarations, mod:1 and mod:4)
	visits := []string{"main:1", "mod:1", "mod:4", "main:2", "mod:2", "main:3", "main:4", "mod:5", "mod:6"}
	all := []string{"main:2", "mod:2", "main:3", "main:4", "mod:5", "mod:6", "mod:4", "other:2"}
	register(&Scenario{Prop: "C18", Name: "breakpoints-across-sources", Quick: 0, Thor: 0, FreeQuick: -1, FreeThor: -1, Horizon: 50000000,
		Desc: "a main source calling functions of an imported module whose statements have the same line numbers as the calls: every set of <= 2 breakpoints over 8 (source, line) targets; the thread must suspend at every breakpoint that lies on its path, in path order, and at nothing else (resume only, break-on-error off)",
		Make: func() (func(), func(e *vsched.Exec) (string, *vsched.Violation)) {
			var probs []string
			n := 0
			body := func() {
				probs, n = nil, 0
				var sets [][]string
				sets = append(sets, nil)
				for i := range all {
					sets = append(sets, []string{all[i]})
					for j := i + 1; j < len(all); j++ {
						sets = append(sets, []string{all[i], all[j]})
					}
				}
				for _, bps := range sets {
					n++
					places, ps := c18Run(bps)
					for _, p := range ps {
						probs = append(probs, fmt.Sprintf("%s [breakpoints %v]", p, bps))
					}
					active := map[string]bool{}
					for _, b := range bps {
						active[b] = true
					}
					var want []string
					for _, v := range visits {
						if active[v] {
							want = append(want, v)
						}
					}
					// the breakpoint on a calling line may fire again when the call returns to it
					got := strings.Join(places, " ")
					ok := got == strings.Join(want, " ")
					if !ok {
						var alt []string
						for _, v := range []string{"main:1", "mod:1", "mod:4", "main:2", "mod:2", "main:2", "main:3", "main:4", "mod:5", "mod:6", "main:4"} {
							if active[v] {
								alt = append(alt, v)
							}
						}
						ok = got == strings.Join(alt, " ")
					}
					if !ok && len(ps) == 0 {
						probs = append(probs, fmt.Sprintf("breakpoints %v: the thread suspended at [%s], its path meets the breakpoints at [%s]", bps, got, strings.Join(want, " ")))
					}
				}
			}
			chk := c15Check(func() []string { return probs })
			return body, func(e *vsched.Exec) (string, *vsched.Violation) {
				o, v := chk(e)
				if v != nil && strings.Contains(v.Key, "the thread suspended at") {
					v.Key = "breakpoint does not refer to its source and line"
				}
				return fmt.Sprintf("%s configurations=%d", o, n), v
			}
		}})
}
