package main

import (
	"fmt"
	"sort"
	"strings"

	"github.com/krotik/ecal/engine"
	"github.com/krotik/ecal/util"
	"github.com/krotik/ecal/zzverif/vsched"
)

// ---------------------------------------------------------------------------
// C11 — concurrent sink invocations are isolated; failures go to their own event

type c11Ev struct {
	id   float64
	fail bool
	rm   *engine.RootMonitor
	errs []*engine.TaskError
	done bool
}

type c11State struct {
	en     *ienv
	evs    []*c11Ev
	probs  []string
	probes int
}

const c11One = `
sink s1
  kindmatch ["k"],
  {
    let id := event.state.id
    hyield()
    probe(id, event.state.id, event.name)
    if event.state.fail {
      raise("Fail", "d", id)
    }
    probe(id, event.state.id, event.name)
  }
`

const c11Two = `
func shared(x) {
  let y := x
  hyield()
  return y
}
sink s1
  kindmatch ["k"],
  {
    let id := shared(event.state.id)
    probe(id, event.state.id, event.name)
    if event.state.fail {
      raise("Fail", "d", id)
    }
  }
sink s2
  kindmatch ["k"],
  priority 1,
  {
    let id2 := shared(event.state.id)
    probe(id2, event.state.id, event.name)
  }
`

// two invocations write DIFFERENT global variables and read global functions,
// without an ECAL mutex: the interpreter's own bookkeeping (the variable scope)
// must keep them apart
const c11Globals = `
ga := 0
gb := 0
sink s1
  kindmatch ["k"],
  {
    let id := event.state.id
    if id == 1 {
      ga := id
    } else {
      gb := id
    }
    hyield()
    probe(id, event.state.id, event.name)
    if id == 1 {
      ga := ga + 10
    } else {
      gb := gb + 10
    }
  }
`

// two invocations write different entries of ONE global map (and of one global
// list), without an ECAL mutex: every single assignment is made under the
// scope's lock, so the container is never written by two threads at once
const c11SharedMap = `
gm := {}
gl := [0, 0, 0]
sink s1
  kindmatch ["k"],
  {
    let id := event.state.id
    gm[id] := id
    gl[id] := id
    hyield()
    probe(id, event.state.id, event.name)
    gm[id + 10] := id
    gm.last := id
  }
`

// the script itself has a global variable called event (unusual but legal): an
// invocation's own event value must shadow it, never be written into it
const c11GlobalEvent = `
event := {"name": "startup", "state": {"id": 0, "fail": false}}
` + c11One

func (s *c11State) install() {
	s.en.def("hyield", func(tid uint64, args []interface{}) (interface{}, error) {
		vsched.Yield()
		return nil, nil
	})
	s.en.def("probe", func(tid uint64, args []interface{}) (interface{}, error) {
		s.probes++
		if len(args) != 3 || fmt.Sprint(args[0]) != fmt.Sprint(args[1]) || fmt.Sprint(args[2]) != "ev"+fmt.Sprint(args[1]) {
			s.probs = append(s.probs, fmt.Sprintf("invocation saw local=%v event.state.id=%v event.name=%v", args[0], args[1], args[2]))
		}
		return nil, nil
	})
}

func c11Make(src string, workers int, fails []bool, twoSinks bool) func() (func(), func(e *vsched.Exec) (string, *vsched.Violation)) {
	return func() (func(), func(e *vsched.Exec) (string, *vsched.Violation)) {
		var s *c11State
		body := func() {
			s = &c11State{en: newEnv(workers)}
			s.install()
			if _, err := s.en.eval(src); err != nil {
				vsched.Fail("setup: %v", err)
			}
			proc := s.en.erp.Processor
			proc.Start()
			var wg vsched.WaitGroup
			for i, f := range fails {
				ev := &c11Ev{id: float64(i + 1), fail: f}
				s.evs = append(s.evs, ev)
			}
			run := func(ev *c11Ev) {
				ev.rm = proc.NewRootMonitor(nil, nil)
				proc.AddEventAndWait(engine.NewEvent(fmt.Sprintf("ev%v", ev.id), []string{"k"},
					map[interface{}]interface{}{"id": ev.id, "fail": ev.fail}), ev.rm)
				ev.errs = ev.rm.AllErrors()
				ev.done = true
			}
			for _, ev := range s.evs[1:] {
				ev := ev
				wg.Add(1)
				vsched.GoNamed(fmt.Sprintf("adder%v", ev.id), func() { run(ev); wg.Done() })
			}
			run(s.evs[0])
			wg.Wait()
			vsched.Quiesce()
			if strings.Contains(src, `"startup"`) {
				if v, _, _ := s.en.vs.GetValue("event"); !strings.Contains(fmt.Sprint(v), "startup") {
					s.probs = append(s.probs, "the script's own global variable event was overwritten by a sink invocation")
				}
			}
			vsched.End()
		}
		check := func(e *vsched.Exec) (string, *vsched.Violation) {
			switch e.Outcome {
			case vsched.OutDeadlock, vsched.OutLivelock, vsched.OutHorizon:
				return e.Outcome, &vsched.Violation{Key: e.Outcome + ":" + e.BlockedKey(), Msg: e.Outcome + ": " + e.Detail}
			case vsched.OutPanic:
				return "panic", &vsched.Violation{Key: "panic:" + firstLineOf(e.Detail), Msg: e.Detail + "\n" + e.PanicStk}
			case vsched.OutFault:
				return "fault", &vsched.Violation{Key: "fault:" + e.Detail, Msg: e.Detail}
			}
			probs := append([]string(nil), s.probs...)
			for _, ev := range s.evs {
				if !ev.done {
					probs = append(probs, fmt.Sprintf("event %v: wait did not return", ev.id))
					continue
				}
				var got []string
				for _, te := range ev.errs {
					for r, err := range te.ErrorMap {
						d := fmt.Sprintf("%s@%s:", r, te.Event.Name())
						if rd, ok := err.(*util.RuntimeErrorWithDetail); ok {
							d += fmt.Sprintf("%v/%v/%v", rd.Type, rd.Detail, rd.Data)
						} else {
							d += fmt.Sprintf("%T:%v", err, err)
						}
						got = append(got, d)
					}
				}
				sort.Strings(got)
				want := ""
				if ev.fail {
					want = fmt.Sprintf("s1@ev%v:Fail/d/%v", ev.id, ev.id)
				}
				if strings.Join(got, ",") != want {
					kind := "wrong"
					if want != "" && len(got) == 0 {
						kind = "lost"
					} else if want == "" {
						kind = "spurious"
					}
					probs = append(probs, fmt.Sprintf("event %v: %s error report {%s}, expected {%s}", ev.id, kind, strings.Join(got, ","), want))
				}
			}
			if len(probs) > 0 {
				sort.Strings(probs)
				key := probs[0]
				if strings.Contains(key, "error report") {
					// stable key: kind of misreport only
					key = key[strings.Index(key, ": ")+2:]
					key = key[:strings.Index(key, " error report")] + " error report"
				}
				return "wrong", &vsched.Violation{Key: key, Msg: strings.Join(probs, "; ")}
			}
			return fmt.Sprintf("ok probes=%d", s.probes), nil
		}
		return body, check
	}
}

func init() {
	type v struct {
		name  string
		fails []bool
	}
	for _, w := range []int{2, 3} {
		for _, x := range []v{{"ok-ok", []bool{false, false}}, {"fail-ok", []bool{true, false}}, {"fail-fail", []bool{true, true}},
			{"fail-ok-ok", []bool{true, false, false}}, {"fail-ok-fail", []bool{true, false, true}}} {
			w, x := w, x
			if len(x.fails) == 3 && w == 2 {
				continue
			}
			if len(x.fails) == 2 && w == 3 {
				continue
			}
			q, t := 1, 2
			sh := 4
			if len(x.fails) == 3 {
				q, t = 1, 1
				sh = 8
			}
			register(&Scenario{Prop: "C11", Name: fmt.Sprintf("one-sink-%s-w%d", x.name, w), Quick: q, Thor: t,
				FreeQuick: 1, FreeThor: 1, QuickShards: 2, ThorShards: sh,
				Desc: fmt.Sprintf("%d events (fail pattern %v) trigger the same sink on %d workers, each added with wait from its own thread", len(x.fails), x.fails, w),
				Make: c11Make(c11One, w, x.fails, false)})
		}
	}
	register(&Scenario{Prop: "C11", Name: "shared-global-containers-ok-ok-w2", Quick: 1, Thor: 2,
		FreeQuick: 1, FreeThor: 1, QuickShards: 2, ThorShards: 4,
		Desc: "2 events on 2 workers trigger a sink that assigns to different entries of one global map and one global list without an ECAL mutex (element writes into ECAL containers are tracked by the race check)",
		Make: c11Make(c11SharedMap, 2, []bool{false, false}, false)})
	for _, x := range []v{{"fail-ok", []bool{true, false}}, {"ok-ok", []bool{false, false}}} {
		x := x
		register(&Scenario{Prop: "C11", Name: "global-named-event-" + x.name + "-w2", Quick: 1, Thor: 2,
			FreeQuick: 1, FreeThor: 1, QuickShards: 2, ThorShards: 4,
			Desc: "the script declares a global variable called event; 2 events on 2 workers trigger the same sink: each invocation sees its own event, and the global keeps its value",
			Make: c11Make(c11GlobalEvent, 2, x.fails, false)})
	}
	register(&Scenario{Prop: "C11", Name: "different-globals-ok-ok-w2", Quick: 1, Thor: 2,
		FreeQuick: 1, FreeThor: 1, QuickShards: 2, ThorShards: 4,
		Desc: "2 events on 2 workers trigger a sink that writes a different global variable per event and reads global functions, without an ECAL mutex",
		Make: c11Make(c11Globals, 2, []bool{false, false}, false)})
	for _, x := range []v{{"fail-ok", []bool{true, false}}, {"ok-ok", []bool{false, false}}} {
		x := x
		register(&Scenario{Prop: "C11", Name: "two-sinks-shared-func-" + x.name + "-w2", Quick: 1, Thor: 2,
			FreeQuick: 1, FreeThor: 1, QuickShards: 2, ThorShards: 8,
			Desc: "two sinks calling a shared global function, 2 events on 2 workers",
			Make: c11Make(c11Two, 2, x.fails, true)})
	}
}
