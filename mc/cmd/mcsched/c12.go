package main

import (
	"fmt"
	"sort"
	"strings"

	"github.com/krotik/ecal/engine"
	"github.com/krotik/ecal/zzverif/vsched"
)

// ---------------------------------------------------------------------------
// C12 — mutex blocks of one name are mutually exclusive, re-entrant and always released

type c12State struct {
	en      *ienv
	occ     map[string]int
	maxOcc  map[string]int
	both    bool // two different names occupied at the same time
	probs   []string
	incs    int
	results []string
	tids    []uint64
	final   interface{}
	owners  string
	locked  []string
}

// exit kinds from inside the mutex block
var c12Exits = []struct{ name, wrapPre, inner, wrapPost string }{
	{"normal", "", "", ""},
	{"raise", "", `raise("X", "boom", 1)`, ""},
	{"rterror", "", `x := 1 + "a"`, ""},
	{"return", "", `return 5`, ""},
	{"break", "for i in range(1, 3) {", `break`, "}"},
	{"continue", "for i in range(1, 2) {", `continue`, "}"},
}

// c12Func builds `func <fname>() { ... }` whose body enters the mutex block(s).
func c12Func(fname string, names []string, exit int) string {
	ex := c12Exits[exit]
	var b strings.Builder
	fmt.Fprintf(&b, "func %s() {\n%s\n", fname, ex.wrapPre)
	for _, n := range names {
		if strings.HasPrefix(n, "&") {
			// a completed nested block of the same name before the next one:
			// m { m { } m { ... } }
			fmt.Fprintf(&b, "mutex %s {\nhyield()\n}\n", n[1:])
			n = n[1:]
		}
		fmt.Fprintf(&b, "mutex %s {\n", n)
	}
	inner := strings.TrimPrefix(names[len(names)-1], "&")
	fmt.Fprintf(&b, "enter(\"%s\")\nt := g%s\nhyield()\ng%s := t + 1\nleave(\"%s\")\n%s\n", inner, inner, inner, inner, ex.inner)
	for range names {
		b.WriteString("}\n")
	}
	fmt.Fprintf(&b, "%s\n}\n", ex.wrapPost)
	return b.String()
}

func (s *c12State) install() {
	s.occ = map[string]int{}
	s.maxOcc = map[string]int{}
	s.en.def("enter", func(tid uint64, args []interface{}) (interface{}, error) {
		n := fmt.Sprint(args[0])
		s.occ[n]++
		if s.occ[n] > s.maxOcc[n] {
			s.maxOcc[n] = s.occ[n]
		}
		if s.occ[n] > 1 {
			s.probs = append(s.probs, fmt.Sprintf("%d threads inside mutex block %s", s.occ[n], n))
		}
		k := 0
		for _, v := range s.occ {
			if v > 0 {
				k++
			}
		}
		if k > 1 {
			s.both = true
		}
		s.incs++
		vsched.Yield()
		return nil, nil
	})
	s.en.def("leave", func(tid uint64, args []interface{}) (interface{}, error) {
		s.occ[fmt.Sprint(args[0])]--
		return nil, nil
	})
	s.en.def("hyield", func(tid uint64, args []interface{}) (interface{}, error) {
		vsched.Yield()
		return nil, nil
	})
}

func (s *c12State) finish() {
	tot := 0.0
	for _, n := range []string{"gm", "gn"} {
		if v, ok, _ := s.en.vs.GetValue(n); ok {
			if f, isf := v.(float64); isf {
				tot += f
			}
		}
	}
	s.final = tot
	var own []string
	for n, o := range s.en.erp.MutexeOwners {
		if o != 0 {
			own = append(own, fmt.Sprintf("%s owned by %d", n, o))
		}
	}
	sort.Strings(own)
	s.owners = strings.Join(own, ",")
	for n, m := range s.en.erp.Mutexes {
		if m.IsLocked() {
			s.locked = append(s.locked, n)
		}
	}
	sort.Strings(s.locked)
}

func c12Check(sp **c12State, wantBothPossible bool) func(e *vsched.Exec) (string, *vsched.Violation) {
	return func(e *vsched.Exec) (string, *vsched.Violation) {
		s := *sp
		switch e.Outcome {
		case vsched.OutDeadlock, vsched.OutLivelock, vsched.OutHorizon:
			return e.Outcome, &vsched.Violation{Key: e.Outcome + ":" + e.BlockedKey(), Msg: e.Outcome + ": " + e.Detail}
		case vsched.OutPanic:
			return "panic", &vsched.Violation{Key: "panic:" + firstLineOf(e.Detail), Msg: e.Detail + "\n" + e.PanicStk}
		case vsched.OutFault:
			return "fault", &vsched.Violation{Key: "fault:" + e.Detail, Msg: e.Detail}
		}
		var probs []string
		probs = append(probs, s.probs...)
		if fmt.Sprint(s.final) != fmt.Sprint(float64(s.incs)) {
			probs = append(probs, fmt.Sprintf("lost update: shared counter is %v after %d increments inside the mutex", s.final, s.incs))
		}
		seenTid := map[uint64]bool{}
		for _, t := range s.tids {
			if seenTid[t] {
				probs = append(probs, "two threads were given the same thread id (the mutex treats them as one re-entrant owner)")
			}
			seenTid[t] = true
		}
		if s.owners != "" {
			probs = append(probs, "owner table not cleared: "+s.owners)
		}
		if len(s.locked) > 0 {
			probs = append(probs, "mutex still locked at the end: "+strings.Join(s.locked, ","))
		}
		if len(probs) > 0 {
			sort.Strings(probs)
			// keep the key short and stable
			key := probs[0]
			return "wrong", &vsched.Violation{Key: key, Msg: strings.Join(probs, "; ") + " results=" + strings.Join(s.results, "|")}
		}
		obs := "ok"
		if s.both {
			obs = "ok both-names-occupied"
		}
		return obs, nil
	}
}

func init() {
	type variant struct {
		name  string
		names [][]string // per thread: nesting of mutex names
		q, t  int
	}
	vars := []variant{
		{"same-flat-2", [][]string{{"m"}, {"m"}}, 2, 3},
		{"diff-flat-2", [][]string{{"m"}, {"n"}}, 2, 3},
		{"same-nested-2", [][]string{{"m", "m"}, {"m", "m"}}, 2, 2},
		{"mixed-nested-2", [][]string{{"m", "n"}, {"m", "n"}}, 2, 2},
		{"same-nested3-2", [][]string{{"m", "m", "m"}, {"m"}}, 1, 2},
		{"same-flat-3", [][]string{{"m"}, {"m"}, {"m"}}, 1, 2},
		// a nested block that was completed, then another one, still inside the outer block
		{"same-seq-2", [][]string{{"m", "&m"}, {"m"}}, 1, 2},
	}
	for _, v := range vars {
		for ex := range c12Exits {
			v, ex := v, ex
			q, t := v.q, v.t
			if len(v.names) == 2 {
				q, t = 2, 3
			}
			mustSee := ""
			if v.name == "diff-flat-2" {
				mustSee = "both-names-occupied"
			}
			register(&Scenario{Prop: "C12", Name: fmt.Sprintf("direct-%s-%s", v.name, c12Exits[ex].name), Quick: q, Thor: t,
				MustSee: mustSee,
				Desc:    fmt.Sprintf("%d threads evaluating functions directly (own thread ids), mutex nesting %v, exit kind %s", len(v.names), v.names, c12Exits[ex].name),
				Make: func() (func(), func(e *vsched.Exec) (string, *vsched.Violation)) {
					var s *c12State
					body := func() {
						s = &c12State{en: newEnv(1)}
						s.install()
						var src strings.Builder
						src.WriteString("gm := 0\ngn := 0\n")
						for i, ns := range v.names {
							src.WriteString(c12Func(fmt.Sprintf("f%d", i), ns, ex))
						}
						if _, err := s.en.eval(src.String()); err != nil {
							vsched.Fail("setup: %v", err)
						}
						calls := make([]func(), len(v.names))
						for i := range v.names {
							ast, err := s.en.parse(fmt.Sprintf("f%d()", i))
							if err != nil {
								vsched.Fail("setup: %v", err)
							}
							calls[i] = func() {
								// every host thread asks for its own id, as an embedder does
								tid := s.en.erp.NewThreadID()
								s.tids = append(s.tids, tid)
								res, err := ast.Runtime.Eval(s.en.vs, make(map[string]interface{}), tid)
								s.results = append(s.results, fmt.Sprintf("%v/%v", res, errString(err)))
							}
						}
						var wg vsched.WaitGroup
						for i := 1; i < len(calls); i++ {
							i := i
							wg.Add(1)
							vsched.GoNamed(fmt.Sprintf("T%d", i), func() { calls[i](); wg.Done() })
						}
						calls[0]()
						wg.Wait()
						s.finish()
					}
					return body, c12Check(&s, mustSee != "")
				}})
		}
	}
	// threads created via sinks on two workers plus one direct evaluation
	for ex := range c12Exits {
		ex := ex
		register(&Scenario{Prop: "C12", Name: "sinks-2w+direct-" + c12Exits[ex].name, Quick: 1, Thor: 2,
			FreeQuick: 1, FreeThor: 1, ThorShards: 6,
			Desc: "two sink invocations on 2 workers and one directly evaluated function all entering mutex m, exit kind " + c12Exits[ex].name,
			Make: func() (func(), func(e *vsched.Exec) (string, *vsched.Violation)) {
				var s *c12State
				body := func() {
					s = &c12State{en: newEnv(2)}
					s.install()
					src := "gm := 0\ngn := 0\n" + c12Func("f0", []string{"m"}, ex) +
						"sink s1\n kindmatch [\"k\"],\n {\n f0()\n }\n"
					if _, err := s.en.eval(src); err != nil {
						vsched.Fail("setup: %v", err)
					}
					ast, err := s.en.parse("f0()")
					if err != nil {
						vsched.Fail("setup: %v", err)
					}
					proc := s.en.erp.Processor
					proc.Start()
					var wg vsched.WaitGroup
					for i := 0; i < 2; i++ {
						i := i
						wg.Add(1)
						vsched.GoNamed(fmt.Sprintf("adder%d", i), func() {
							rm := proc.NewRootMonitor(nil, nil)
							proc.AddEventAndWait(engine.NewEvent(fmt.Sprintf("e%d", i), []string{"k"}, nil), rm)
							wg.Done()
						})
					}
					tid := s.en.erp.NewThreadID()
					res, err := ast.Runtime.Eval(s.en.vs, make(map[string]interface{}), tid)
					s.results = append(s.results, fmt.Sprintf("%v/%v", res, errString(err)))
					wg.Wait()
					vsched.Quiesce()
					s.finish()
					vsched.End()
				}
				return body, c12Check(&s, false)
			}})
	}
}

// thread ids stay unique across a restart of the processor: a host thread keeps
// the id it was given while the pool is stopped and started again (the console
// does exactly that: NewThreadID, Finish, Reset / Start), so the new workers must
// not be numbered from the beginning.
func init() {
	register(&Scenario{Prop: "C12", Name: "restart+sinks-2w+direct", Quick: 1, Thor: 2, FreeQuick: 1, FreeThor: 1, ThorShards: 4,
		Desc: "a host thread takes its id, the processor is started, finished and started again, then two sink invocations on the 2 new workers and the host thread (with its old id) all enter mutex m",
		Make: func() (func(), func(e *vsched.Exec) (string, *vsched.Violation)) {
			var s *c12State
			body := func() {
				s = &c12State{en: newEnv(2)}
				s.install()
				src := "gm := 0\ngn := 0\n" + c12Func("f0", []string{"m"}, 0) +
					"sink s1\n kindmatch [\"k\"],\n {\n f0()\n }\n"
				if _, err := s.en.eval(src); err != nil {
					vsched.Fail("setup: %v", err)
				}
				ast, err := s.en.parse("f0()")
				if err != nil {
					vsched.Fail("setup: %v", err)
				}
				tid := s.en.erp.NewThreadID()
				proc := s.en.erp.Processor
				proc.Start()
				proc.Finish()
				proc.Start()
				var wg vsched.WaitGroup
				for i := 0; i < 2; i++ {
					i := i
					wg.Add(1)
					vsched.GoNamed(fmt.Sprintf("adder%d", i), func() {
						rm := proc.NewRootMonitor(nil, nil)
						proc.AddEventAndWait(engine.NewEvent(fmt.Sprintf("e%d", i), []string{"k"}, nil), rm)
						wg.Done()
					})
				}
				res, err := ast.Runtime.Eval(s.en.vs, make(map[string]interface{}), tid)
				s.results = append(s.results, fmt.Sprintf("%v/%v", res, errString(err)))
				wg.Wait()
				vsched.Quiesce()
				s.finish()
				vsched.End()
			}
			return body, c12Check(&s, false)
		}})
}

// thread ids stay unique while the pool is resized: the load regulation of the
// processor shrinks the pool without waiting and grows it again a moment later,
// so workers may still be leaving while new ones are numbered. Afterwards a host
// thread takes a fresh id; it must differ from the id of every live worker
// (resize-ids-*: short executions, explored to a higher preemption bound), and a
// sink invocation on any worker and the host thread exclude each other in mutex m
// (resize-*+sink+direct).
func init() {
	for _, n := range []int{2, 3} {
		for _, withSink := range []bool{false, true} {
			n, withSink := n, withSink
			name := fmt.Sprintf("resize-ids-%dw", n)
			q, t := 2, 3
			if n == 3 {
				q, t = 1, 2
			}
			desc := fmt.Sprintf("the pool of %d workers is shrunk to %d without waiting and grown again to %d, then a host thread takes a new id, which must differ from every live worker's id", n, n-2, n)
			if withSink {
				if n == 3 {
					continue
				}
				name = fmt.Sprintf("resize-%dw+sink+direct", n)
				q, t = 1, 2
				desc += "; the host thread then enters mutex m while a sink invocation does the same"
			}
			register(&Scenario{Prop: "C12", Name: name, Quick: q, Thor: t, FreeQuick: 1, FreeThor: 1, QuickShards: 2, ThorShards: 8,
				Desc: desc,
				Make: func() (func(), func(e *vsched.Exec) (string, *vsched.Violation)) {
					var s *c12State
					body := func() {
						s = &c12State{en: newEnv(n)}
						s.install()
						src := "gm := 0\ngn := 0\n" + c12Func("f0", []string{"m"}, 0) +
							"sink s1\n kindmatch [\"k\"],\n {\n f0()\n }\n"
						if _, err := s.en.eval(src); err != nil {
							vsched.Fail("setup: %v", err)
						}
						ast, err := s.en.parse("f0()")
						if err != nil {
							vsched.Fail("setup: %v", err)
						}
						proc := s.en.erp.Processor
						proc.Start()
						tp := proc.ThreadPool()
						tp.SetWorkerCount(n-2, false)
						tp.SetWorkerCount(n, false)
						tid := s.en.erp.NewThreadID()
						s.tids = append(s.tids, tid)
						if ids, ok := tp.State()["TotalWorkerThreads"].([]uint64); ok {
							s.tids = append(s.tids, ids...)
						}
						if withSink {
							var wg vsched.WaitGroup
							wg.Add(1)
							vsched.GoNamed("adder", func() {
								rm := proc.NewRootMonitor(nil, nil)
								proc.AddEventAndWait(engine.NewEvent("e", []string{"k"}, nil), rm)
								wg.Done()
							})
							res, err := ast.Runtime.Eval(s.en.vs, make(map[string]interface{}), tid)
							s.results = append(s.results, fmt.Sprintf("%v/%v", res, errString(err)))
							wg.Wait()
						}
						vsched.Quiesce()
						s.finish()
						vsched.End()
					}
					return body, c12Check(&s, false)
				}})
		}
	}
}
