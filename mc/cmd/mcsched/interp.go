package main

import (
	"fmt"

	"github.com/krotik/ecal/config"
	"github.com/krotik/ecal/interpreter"
	"github.com/krotik/ecal/parser"
	"github.com/krotik/ecal/scope"
	"github.com/krotik/ecal/util"
)

// ienv is a fresh interpreter instance for one execution.
type ienv struct {
	erp *interpreter.ECALRuntimeProvider
	vs  parser.Scope
	log *util.MemoryLogger
}

func newEnv(workers int) *ienv {
	config.Config[config.WorkerCount] = workers
	logger := util.NewMemoryLogger(200)
	erp := interpreter.NewECALRuntimeProvider("verif", nil, logger)
	erp.Cron.Stop()
	return &ienv{erp: erp, vs: scope.NewScope(scope.GlobalScope), log: logger}
}

// hfunc adapts a Go closure to util.ECALFunction so that it can be placed in
// a scope and called from ECAL code.
type hfunc struct {
	f func(tid uint64, args []interface{}) (interface{}, error)
}

func (h *hfunc) Run(instanceID string, vs parser.Scope, is map[string]interface{}, tid uint64, args []interface{}) (interface{}, error) {
	return h.f(tid, args)
}
func (h *hfunc) DocString() (string, error) { return "harness function", nil }

func (en *ienv) def(name string, f func(tid uint64, args []interface{}) (interface{}, error)) {
	en.vs.SetValue(name, &hfunc{f})
}

// parse parses and validates a program with the environment's provider.
func (en *ienv) parse(src string) (*parser.ASTNode, error) {
	ast, err := parser.ParseWithRuntime("verif", src, en.erp)
	if err != nil {
		return nil, err
	}
	if err := ast.Runtime.Validate(); err != nil {
		return nil, err
	}
	return ast, nil
}

// eval parses and evaluates src in the global scope with a new thread id.
func (en *ienv) eval(src string) (interface{}, error) {
	ast, err := en.parse(src)
	if err != nil {
		return nil, fmt.Errorf("parse: %v", err)
	}
	return ast.Runtime.Eval(en.vs, make(map[string]interface{}), en.erp.NewThreadID())
}

func errString(err error) string {
	if err == nil {
		return ""
	}
	return err.Error()
}
