package main

import (
	"fmt"
	"sort"
	"strings"

	"github.com/krotik/ecal/engine"
	"github.com/krotik/ecal/zzverif/vsched"
)

// ---------------------------------------------------------------------------
// C01 (schedule dimension) — events added concurrently from several threads,
// with same and different names and kinds, on 2 workers: whatever the
// interleaving of the adders with each other and with the workers, every event
// fires exactly its matching rules once and a triggering event is never skipped.

func init() {
	type ev struct {
		name string
		kind []string
	}
	variants := []struct {
		name string
		evs  []ev
	}{
		{"same-name-different-kind", []ev{{"n", []string{"x"}}, {"n", []string{"a"}}}},
		{"same-kind-twice", []ev{{"n1", []string{"a"}}, {"n2", []string{"a"}}}},
		{"three-adders", []ev{{"n", []string{"x"}}, {"n", []string{"a"}}, {"m", []string{"a", "b"}}}},
	}
	for _, v := range variants {
		v := v
		q, t := 1, 2
		register(&Scenario{Prop: "C01", Name: "concurrent-" + v.name, Quick: q, Thor: t, FreeQuick: 2, FreeThor: 2, ThorShards: 4,
			Desc: fmt.Sprintf("%d threads add events %v concurrently (wait semantics, own root monitors) to a processor with 2 workers and rules on kinds a, a.*, *; the trigger cache and the rule index are shared", len(v.evs), v.evs),
			Make: func() (func(), func(e *vsched.Exec) (string, *vsched.Violation)) {
				fired := map[string][]string{}
				skipped := map[string]bool{}
				body := func() {
					fired = map[string][]string{}
					skipped = map[string]bool{}
					proc := engine.NewProcessor(2)
					add := func(name string, kinds []string) {
						proc.AddRule(&engine.Rule{Name: name, KindMatch: kinds, ScopeMatch: []string{},
							Action: func(p engine.Processor, m engine.Monitor, e *engine.Event, tid uint64) error {
								k := e.Name() + ":" + strings.Join(e.Kind(), ".")
								fired[k] = append(fired[k], name)
								vsched.Yield()
								return nil
							}})
					}
					add("ra", []string{"a"})
					add("rab", []string{"a.*"})
					add("rany1", []string{"a", "*"}) // two patterns that both match kind a
					proc.Start()
					var wg vsched.WaitGroup
					run := func(x ev) {
						rm := proc.NewRootMonitor(nil, nil)
						m, _ := proc.AddEventAndWait(engine.NewEvent(x.name, x.kind, nil), rm)
						if m == nil {
							skipped[x.name+":"+strings.Join(x.kind, ".")] = true
						}
					}
					for _, x := range v.evs[1:] {
						x := x
						wg.Add(1)
						vsched.GoNamed("adder-"+x.name+strings.Join(x.kind, ""), func() { run(x); wg.Done() })
					}
					run(v.evs[0])
					wg.Wait()
					vsched.Quiesce()
					vsched.End()
				}
				check := func(e *vsched.Exec) (string, *vsched.Violation) {
					switch e.Outcome {
					case vsched.OutDeadlock, vsched.OutLivelock, vsched.OutHorizon:
						return e.Outcome, &vsched.Violation{Key: e.Outcome + ":" + e.BlockedKey(), Msg: e.Outcome + ": " + e.Detail}
					case vsched.OutPanic:
						return "panic", &vsched.Violation{Key: "panic:" + firstLineOf(e.Detail), Msg: e.Detail + "\n" + e.PanicStk}
					case vsched.OutFault:
						return "fault", &vsched.Violation{Key: "fault:" + e.Detail, Msg: e.Detail}
					}
					for _, x := range v.evs {
						k := x.name + ":" + strings.Join(x.kind, ".")
						var want []string
						switch strings.Join(x.kind, ".") {
						case "a":
							want = []string{"ra", "rany1"}
						case "a.b":
							want = []string{"rab"}
						case "x":
							want = []string{"rany1"}
						}
						got := append([]string{}, fired[k]...)
						sort.Strings(got)
						if strings.Join(got, ",") != strings.Join(want, ",") {
							kind := "fired-set-differs"
							if len(got) == 0 && skipped[k] {
								kind = "triggering-event-skipped"
							}
							return "wrong", &vsched.Violation{Key: kind, Msg: fmt.Sprintf("event %s fired [%s], expected [%s] (skipped: %v)", k, strings.Join(got, ","), strings.Join(want, ","), skipped[k])}
						}
					}
					return "ok", nil
				}
				return body, check
			}})
	}
}
