module verifmc

go 1.23

replace github.com/krotik/ecal => /repo

require github.com/krotik/ecal v0.0.0

require github.com/krotik/common v1.4.4
