// Package vatomic is the stand-in of sync/atomic under the controlled
// scheduler (overlaid as github.com/krotik/ecal/zzverif/vatomic): every atomic
// operation is a scheduling point - so that a sequence of atomic steps that is
// not one atomic step (load, then add) can be interleaved - and a
// synchronisation edge for the happens-before race check (each operation both
// acquires and releases the clock of its address, which can only hide races,
// never invent them). The operation itself is the real one.
package vatomic

import (
	"sync/atomic"
	"unsafe"

	"github.com/krotik/ecal/zzverif/vsched"
)

func AddInt32(addr *int32, delta int32) int32 {
	vsched.Atomic(addr)
	return atomic.AddInt32(addr, delta)
}
func AddInt64(addr *int64, delta int64) int64 {
	vsched.Atomic(addr)
	return atomic.AddInt64(addr, delta)
}
func AddUint32(addr *uint32, delta uint32) uint32 {
	vsched.Atomic(addr)
	return atomic.AddUint32(addr, delta)
}
func AddUint64(addr *uint64, delta uint64) uint64 {
	vsched.Atomic(addr)
	return atomic.AddUint64(addr, delta)
}
func AddUintptr(addr *uintptr, d uintptr) uintptr {
	vsched.Atomic(addr)
	return atomic.AddUintptr(addr, d)
}
func AndInt32(addr *int32, mask int32) int32 { vsched.Atomic(addr); return atomic.AndInt32(addr, mask) }
func AndInt64(addr *int64, mask int64) int64 { vsched.Atomic(addr); return atomic.AndInt64(addr, mask) }
func AndUint32(addr *uint32, mask uint32) uint32 {
	vsched.Atomic(addr)
	return atomic.AndUint32(addr, mask)
}
func AndUint64(addr *uint64, mask uint64) uint64 {
	vsched.Atomic(addr)
	return atomic.AndUint64(addr, mask)
}
func OrInt32(addr *int32, mask int32) int32 { vsched.Atomic(addr); return atomic.OrInt32(addr, mask) }
func OrInt64(addr *int64, mask int64) int64 { vsched.Atomic(addr); return atomic.OrInt64(addr, mask) }
func OrUint32(addr *uint32, mask uint32) uint32 {
	vsched.Atomic(addr)
	return atomic.OrUint32(addr, mask)
}
func OrUint64(addr *uint64, mask uint64) uint64 {
	vsched.Atomic(addr)
	return atomic.OrUint64(addr, mask)
}
func LoadInt32(addr *int32) int32       { vsched.Atomic(addr); return atomic.LoadInt32(addr) }
func LoadInt64(addr *int64) int64       { vsched.Atomic(addr); return atomic.LoadInt64(addr) }
func LoadUint32(addr *uint32) uint32    { vsched.Atomic(addr); return atomic.LoadUint32(addr) }
func LoadUint64(addr *uint64) uint64    { vsched.Atomic(addr); return atomic.LoadUint64(addr) }
func LoadUintptr(addr *uintptr) uintptr { vsched.Atomic(addr); return atomic.LoadUintptr(addr) }
func LoadPointer(addr *unsafe.Pointer) unsafe.Pointer {
	vsched.Atomic(addr)
	return atomic.LoadPointer(addr)
}
func StoreInt32(addr *int32, v int32)       { vsched.Atomic(addr); atomic.StoreInt32(addr, v) }
func StoreInt64(addr *int64, v int64)       { vsched.Atomic(addr); atomic.StoreInt64(addr, v) }
func StoreUint32(addr *uint32, v uint32)    { vsched.Atomic(addr); atomic.StoreUint32(addr, v) }
func StoreUint64(addr *uint64, v uint64)    { vsched.Atomic(addr); atomic.StoreUint64(addr, v) }
func StoreUintptr(addr *uintptr, v uintptr) { vsched.Atomic(addr); atomic.StoreUintptr(addr, v) }
func StorePointer(addr *unsafe.Pointer, v unsafe.Pointer) {
	vsched.Atomic(addr)
	atomic.StorePointer(addr, v)
}
func SwapInt32(addr *int32, v int32) int32 { vsched.Atomic(addr); return atomic.SwapInt32(addr, v) }
func SwapInt64(addr *int64, v int64) int64 { vsched.Atomic(addr); return atomic.SwapInt64(addr, v) }
func SwapUint32(addr *uint32, v uint32) uint32 {
	vsched.Atomic(addr)
	return atomic.SwapUint32(addr, v)
}
func SwapUint64(addr *uint64, v uint64) uint64 {
	vsched.Atomic(addr)
	return atomic.SwapUint64(addr, v)
}
func SwapUintptr(addr *uintptr, v uintptr) uintptr {
	vsched.Atomic(addr)
	return atomic.SwapUintptr(addr, v)
}
func SwapPointer(addr *unsafe.Pointer, v unsafe.Pointer) unsafe.Pointer {
	vsched.Atomic(addr)
	return atomic.SwapPointer(addr, v)
}
func CompareAndSwapInt32(addr *int32, o, n int32) bool {
	vsched.Atomic(addr)
	return atomic.CompareAndSwapInt32(addr, o, n)
}
func CompareAndSwapInt64(addr *int64, o, n int64) bool {
	vsched.Atomic(addr)
	return atomic.CompareAndSwapInt64(addr, o, n)
}
func CompareAndSwapUint32(addr *uint32, o, n uint32) bool {
	vsched.Atomic(addr)
	return atomic.CompareAndSwapUint32(addr, o, n)
}
func CompareAndSwapUint64(addr *uint64, o, n uint64) bool {
	vsched.Atomic(addr)
	return atomic.CompareAndSwapUint64(addr, o, n)
}
func CompareAndSwapUintptr(addr *uintptr, o, n uintptr) bool {
	vsched.Atomic(addr)
	return atomic.CompareAndSwapUintptr(addr, o, n)
}
func CompareAndSwapPointer(addr *unsafe.Pointer, o, n unsafe.Pointer) bool {
	vsched.Atomic(addr)
	return atomic.CompareAndSwapPointer(addr, o, n)
}

// typed values

type Int32 struct{ v atomic.Int32 }

func (x *Int32) Load() int32                    { vsched.Atomic(x); return x.v.Load() }
func (x *Int32) Store(v int32)                  { vsched.Atomic(x); x.v.Store(v) }
func (x *Int32) Swap(v int32) int32             { vsched.Atomic(x); return x.v.Swap(v) }
func (x *Int32) Add(d int32) int32              { vsched.Atomic(x); return x.v.Add(d) }
func (x *Int32) CompareAndSwap(o, n int32) bool { vsched.Atomic(x); return x.v.CompareAndSwap(o, n) }

type Int64 struct{ v atomic.Int64 }

func (x *Int64) Load() int64                    { vsched.Atomic(x); return x.v.Load() }
func (x *Int64) Store(v int64)                  { vsched.Atomic(x); x.v.Store(v) }
func (x *Int64) Swap(v int64) int64             { vsched.Atomic(x); return x.v.Swap(v) }
func (x *Int64) Add(d int64) int64              { vsched.Atomic(x); return x.v.Add(d) }
func (x *Int64) CompareAndSwap(o, n int64) bool { vsched.Atomic(x); return x.v.CompareAndSwap(o, n) }

type Uint32 struct{ v atomic.Uint32 }

func (x *Uint32) Load() uint32                    { vsched.Atomic(x); return x.v.Load() }
func (x *Uint32) Store(v uint32)                  { vsched.Atomic(x); x.v.Store(v) }
func (x *Uint32) Swap(v uint32) uint32            { vsched.Atomic(x); return x.v.Swap(v) }
func (x *Uint32) Add(d uint32) uint32             { vsched.Atomic(x); return x.v.Add(d) }
func (x *Uint32) CompareAndSwap(o, n uint32) bool { vsched.Atomic(x); return x.v.CompareAndSwap(o, n) }

type Uint64 struct{ v atomic.Uint64 }

func (x *Uint64) Load() uint64                    { vsched.Atomic(x); return x.v.Load() }
func (x *Uint64) Store(v uint64)                  { vsched.Atomic(x); x.v.Store(v) }
func (x *Uint64) Swap(v uint64) uint64            { vsched.Atomic(x); return x.v.Swap(v) }
func (x *Uint64) Add(d uint64) uint64             { vsched.Atomic(x); return x.v.Add(d) }
func (x *Uint64) CompareAndSwap(o, n uint64) bool { vsched.Atomic(x); return x.v.CompareAndSwap(o, n) }

type Uintptr struct{ v atomic.Uintptr }

func (x *Uintptr) Load() uintptr          { vsched.Atomic(x); return x.v.Load() }
func (x *Uintptr) Store(v uintptr)        { vsched.Atomic(x); x.v.Store(v) }
func (x *Uintptr) Swap(v uintptr) uintptr { vsched.Atomic(x); return x.v.Swap(v) }
func (x *Uintptr) Add(d uintptr) uintptr  { vsched.Atomic(x); return x.v.Add(d) }
func (x *Uintptr) CompareAndSwap(o, n uintptr) bool {
	vsched.Atomic(x)
	return x.v.CompareAndSwap(o, n)
}

type Bool struct{ v atomic.Bool }

func (x *Bool) Load() bool                    { vsched.Atomic(x); return x.v.Load() }
func (x *Bool) Store(v bool)                  { vsched.Atomic(x); x.v.Store(v) }
func (x *Bool) Swap(v bool) bool              { vsched.Atomic(x); return x.v.Swap(v) }
func (x *Bool) CompareAndSwap(o, n bool) bool { vsched.Atomic(x); return x.v.CompareAndSwap(o, n) }

type Value struct{ v atomic.Value }

func (x *Value) Load() interface{}              { vsched.Atomic(x); return x.v.Load() }
func (x *Value) Store(v interface{})            { vsched.Atomic(x); x.v.Store(v) }
func (x *Value) Swap(v interface{}) interface{} { vsched.Atomic(x); return x.v.Swap(v) }
func (x *Value) CompareAndSwap(o, n interface{}) bool {
	vsched.Atomic(x)
	return x.v.CompareAndSwap(o, n)
}

// atomic.Pointer[T] has no stand-in: the repository's go.mod language version (go 1.12) rules out generic types
