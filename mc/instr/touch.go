package instr

import (
	"fmt"
	"go/ast"
	"go/token"
	"go/types"
	"strings"
)

// rootIdent returns the identifier an lvalue / operand is rooted at.
func rootIdent(e ast.Expr) *ast.Ident {
	for {
		switch x := e.(type) {
		case *ast.Ident:
			return x
		case *ast.ParenExpr:
			e = x.X
		case *ast.IndexExpr:
			e = x.X
		case *ast.SliceExpr:
			e = x.X
		case *ast.StarExpr:
			e = x.X
		case *ast.SelectorExpr:
			e = x.X
		default:
			return nil
		}
	}
}

func (pi *pkgInstr) varOf(id *ast.Ident) *types.Var {
	if id == nil {
		return nil
	}
	obj := pi.info.Uses[id]
	if obj == nil {
		obj = pi.info.Defs[id]
	}
	v, ok := obj.(*types.Var)
	if !ok || v.IsField() {
		return nil
	}
	return v
}

func (pi *pkgInstr) isPkgLevel(v *types.Var) bool {
	return pi.pkg != nil && v.Parent() == pi.pkg.Scope()
}

// writesIn calls fn for every identifier that is the root of a written lvalue
// directly inside n (assignment, ++/--, delete, address-of).
func writesIn(n ast.Node, fn func(id *ast.Ident)) {
	ast.Inspect(n, func(n ast.Node) bool {
		switch x := n.(type) {
		case *ast.AssignStmt:
			for _, l := range x.Lhs {
				if id := rootIdent(l); id != nil {
					fn(id)
				}
			}
		case *ast.IncDecStmt:
			if id := rootIdent(x.X); id != nil {
				fn(id)
			}
		case *ast.RangeStmt:
			if x.Tok == token.ASSIGN {
				for _, l := range []ast.Expr{x.Key, x.Value} {
					if l != nil {
						if id := rootIdent(l); id != nil {
							fn(id)
						}
					}
				}
			}
		case *ast.CallExpr:
			if f, ok := x.Fun.(*ast.Ident); ok && f.Name == "delete" && len(x.Args) > 0 {
				if id := rootIdent(x.Args[0]); id != nil {
					fn(id)
				}
			}
		case *ast.UnaryExpr:
			if x.Op == token.AND {
				if id := rootIdent(x.X); id != nil {
					fn(id)
				}
			}
		}
		return true
	})
}

type litInfo struct {
	lit      *ast.FuncLit
	escaping bool
}

// findShared computes the set of mutable shared variables of the package.
func (pi *pkgInstr) findShared() {
	pi.mutable = map[*types.Var]bool{}
	if pi.pkg == nil {
		return
	}
	for _, fe := range pi.fes {
		for _, d := range fe.f.Decls {
			fd, ok := d.(*ast.FuncDecl)
			if !ok || fd.Body == nil {
				continue
			}
			isInit := fd.Recv == nil && fd.Name.Name == "init"
			// (1) package-level variables written outside init
			if !isInit {
				writesIn(fd.Body, func(id *ast.Ident) {
					if v := pi.varOf(id); v != nil && pi.isPkgLevel(v) {
						pi.mutable[v] = true
					}
				})
			}
			// (2) locals captured by an escaping function literal and written
			// inside it or after its creation
			pi.findCaptured(fd)
		}
	}
	for v := range pi.mutable {
		pos := pi.fset.Position(v.Pos())
		kind := "captured"
		if pi.isPkgLevel(v) {
			kind = "package-level"
		}
		pi.sum.SharedVars = append(pi.sum.SharedVars, fmt.Sprintf("%s %s.%s (%s:%d)", kind, pi.pkg.Name(), v.Name(),
			strings.TrimPrefix(pos.Filename, pi.o.Repo+"/"), pos.Line))
	}
}

func (pi *pkgInstr) findCaptured(fd *ast.FuncDecl) {
	// collect function literals with their escape status
	var lits []litInfo
	var stack []ast.Node
	ast.Inspect(fd.Body, func(n ast.Node) bool {
		if n == nil {
			stack = stack[:len(stack)-1]
			return true
		}
		if fl, ok := n.(*ast.FuncLit); ok {
			esc := true
			if len(stack) >= 1 {
				if ce, ok := stack[len(stack)-1].(*ast.CallExpr); ok && ce.Fun == fl {
					// immediately invoked: escapes only under a go statement
					esc = false
					if len(stack) >= 2 {
						if _, ok := stack[len(stack)-2].(*ast.GoStmt); ok {
							esc = true
						}
					}
				}
			}
			lits = append(lits, litInfo{fl, esc})
		}
		stack = append(stack, n)
		return true
	})
	if len(lits) == 0 {
		return
	}
	inside := func(p token.Pos, l *ast.FuncLit) bool { return p >= l.Pos() && p < l.End() }
	// captured variables per escaping literal
	firstCapture := map[*types.Var]token.Pos{}
	capturedBy := map[*types.Var][]*ast.FuncLit{}
	for _, li := range lits {
		if !li.escaping {
			continue
		}
		ast.Inspect(li.lit.Body, func(n ast.Node) bool {
			id, ok := n.(*ast.Ident)
			if !ok {
				return true
			}
			v := pi.varOf(id)
			if v == nil || pi.isPkgLevel(v) {
				return true
			}
			if inside(v.Pos(), li.lit) {
				return true // declared inside the literal
			}
			if v.Pos() < fd.Pos() || v.Pos() >= fd.End() {
				return true
			}
			if p, ok := firstCapture[v]; !ok || li.lit.Pos() < p {
				firstCapture[v] = li.lit.Pos()
			}
			capturedBy[v] = append(capturedBy[v], li.lit)
			return true
		})
	}
	if len(firstCapture) == 0 {
		return
	}
	writesIn(fd.Body, func(id *ast.Ident) {
		v := pi.varOf(id)
		if v == nil {
			return
		}
		fc, ok := firstCapture[v]
		if !ok {
			return
		}
		if id.Pos() == v.Pos() {
			return // the declaration itself
		}
		// written inside a capturing literal, or after the first capture
		for _, l := range capturedBy[v] {
			if inside(id.Pos(), l) {
				pi.mutable[v] = true
				return
			}
		}
		if id.Pos() > fc {
			pi.mutable[v] = true
		}
	})
}

// insertTouches puts vsched.Touch(&v, w) in front of every statement that
// refers to a shared mutable variable.
func (pi *pkgInstr) insertTouches(fe *fileEdits) {
	if len(pi.mutable) == 0 && pi.o.NoFieldNotes {
		return
	}
	for _, d := range fe.f.Decls {
		fd, ok := d.(*ast.FuncDecl)
		if !ok || fd.Body == nil {
			continue
		}
		if fd.Recv == nil && fd.Name.Name == "init" {
			continue
		}
		pi.touchList(fe, fd.Body.List)
	}
}

func (pi *pkgInstr) touchList(fe *fileEdits, list []ast.Stmt) {
	for _, s := range list {
		pi.touchStmt(fe, s)
	}
}

// headerExprs returns the nodes that belong to the statement itself (not to
// nested statement lists) and the nested lists.
func (pi *pkgInstr) touchStmt(fe *fileEdits, s ast.Stmt) {
	var direct []ast.Node
	var lists [][]ast.Stmt
	var collect func(s ast.Stmt)
	collect = func(s ast.Stmt) {
		switch x := s.(type) {
		case nil:
		case *ast.BlockStmt:
			lists = append(lists, x.List)
		case *ast.IfStmt:
			if x.Init != nil {
				direct = append(direct, x.Init)
			}
			direct = append(direct, x.Cond)
			lists = append(lists, x.Body.List)
			if x.Else != nil {
				collect(x.Else)
			}
		case *ast.ForStmt:
			if x.Init != nil {
				direct = append(direct, x.Init)
			}
			if x.Cond != nil {
				direct = append(direct, x.Cond)
			}
			if x.Post != nil {
				direct = append(direct, x.Post)
			}
			lists = append(lists, x.Body.List)
		case *ast.RangeStmt:
			direct = append(direct, x.X)
			if x.Tok == token.ASSIGN {
				if x.Key != nil {
					direct = append(direct, x.Key)
				}
				if x.Value != nil {
					direct = append(direct, x.Value)
				}
			}
			lists = append(lists, x.Body.List)
		case *ast.SwitchStmt:
			if x.Init != nil {
				direct = append(direct, x.Init)
			}
			if x.Tag != nil {
				direct = append(direct, x.Tag)
			}
			for _, c := range x.Body.List {
				cc := c.(*ast.CaseClause)
				for _, e := range cc.List {
					direct = append(direct, e)
				}
				lists = append(lists, cc.Body)
			}
		case *ast.TypeSwitchStmt:
			if x.Init != nil {
				direct = append(direct, x.Init)
			}
			direct = append(direct, x.Assign)
			for _, c := range x.Body.List {
				lists = append(lists, c.(*ast.CaseClause).Body)
			}
		case *ast.SelectStmt:
			for _, c := range x.Body.List {
				cc := c.(*ast.CommClause)
				if cc.Comm != nil {
					direct = append(direct, cc.Comm)
				}
				lists = append(lists, cc.Body)
			}
		case *ast.LabeledStmt:
			collect(x.Stmt)
		default:
			direct = append(direct, s)
		}
	}
	collect(s)

	type acc struct {
		write bool
		name  string
	}
	found := map[*types.Var]*acc{}
	var order []*types.Var
	fieldW := map[string]bool{}
	fieldLabel := map[string]string{}
	containerNote := map[string]string{}
	var fieldOrder []string
	for _, n := range direct {
		if !pi.o.NoFieldNotes && pi.pkg != nil && pi.pkg.Name() == "scope" {
			// element writes into ECAL containers (map[interface{}]interface{},
			// []interface{}) held by a variable scope: the container itself is the
			// tracked location (its header pointer), the scope's lock must order them
			if as, ok := n.(*ast.AssignStmt); ok {
				for _, l := range as.Lhs {
					ix, ok := l.(*ast.IndexExpr)
					if !ok {
						continue
					}
					id, ok := ix.X.(*ast.Ident)
					if !ok {
						continue
					}
					if obj := pi.info.Uses[id]; obj == nil || (obj.Pos() >= s.Pos() && obj.Pos() < s.End()) {
						continue
					}
					tv, ok := pi.info.Types[ix.X]
					if !ok {
						continue
					}
					ts := tv.Type.String()
					if ts != "map[interface{}]interface{}" && ts != "[]interface{}" {
						continue
					}
					txt := "(" + id.Name + ")"
					if _, seen := fieldW[txt]; !seen {
						fieldOrder = append(fieldOrder, txt)
					}
					fieldW[txt] = true
					fieldLabel[txt] = "ECAL container element"
					containerNote[txt] = id.Name
				}
			}
		}
		if !pi.o.NoFieldNotes {
			written := map[*ast.SelectorExpr]bool{}
			fieldWrites(n, func(se *ast.SelectorExpr) { written[se] = true })
			ast.Inspect(n, func(n ast.Node) bool {
				switch x := n.(type) {
				case *ast.FuncLit:
					return false
				case *ast.CallExpr:
					if pi.isAtomicCall(x) {
						return false
					}
				case *ast.SelectorExpr:
					if !pi.guardedField(x) {
						return true
					}
					root := rootIdent(x.X)
					if root == nil || !pureRecv(x.X) {
						return true
					}
					if obj := pi.info.Uses[root]; obj == nil || (obj.Pos() >= s.Pos() && obj.Pos() < s.End()) {
						return true // declared by this very statement
					}
					txt := pi.text(fe, x)
					fieldLabel[txt] = pi.fieldName(x)
					if _, ok := fieldW[txt]; !ok {
						fieldOrder = append(fieldOrder, txt)
						fieldW[txt] = false
					}
					if written[x] {
						fieldW[txt] = true
					}
				}
				return true
			})
		}
		// reads (any reference), skipping nested function literal bodies
		ast.Inspect(n, func(n ast.Node) bool {
			switch x := n.(type) {
			case *ast.FuncLit:
				// the literal's own statements are handled as a list
				lists = append(lists, x.Body.List)
				return false
			case *ast.CallExpr:
				if pi.isAtomicCall(x) {
					return false // atomics are ordered: no Touch, no race
				}
			case *ast.Ident:
				v := pi.varOf(x)
				if v == nil || !pi.mutable[v] {
					return true
				}
				if v.Pos() >= s.Pos() && v.Pos() < s.End() {
					return true // declared by this very statement
				}
				if found[v] == nil {
					found[v] = &acc{name: x.Name}
					order = append(order, v)
				}
			}
			return true
		})
		// writes
		writesInShallow(n, func(id *ast.Ident) {
			v := pi.varOf(id)
			if v != nil && found[v] != nil {
				found[v].write = true
			}
		})
	}
	if len(order) > 0 || len(fieldOrder) > 0 {
		var b strings.Builder
		for _, v := range order {
			fmt.Fprintf(&b, "vsched.Touch(&%s, %v); ", found[v].name, found[v].write)
			pi.sum.TouchPoints++
		}
		for _, txt := range fieldOrder {
			if name, ok := containerNote[txt]; ok {
				fmt.Fprintf(&b, "vsched.Access(func() interface{} { return %s }, true, %q); ", name, fieldLabel[txt])
			} else {
				fmt.Fprintf(&b, "vsched.Access(func() interface{} { return &%s }, %v, %q); ", txt, fieldW[txt], fieldLabel[txt])
			}
			pi.sum.FieldNotes++
		}
		fe.insert(pi.off(s.Pos()), b.String())
		fe.needV = true
	}
	for _, l := range lists {
		pi.touchList(fe, l)
	}
}

// writesInShallow is writesIn without descending into function literals.
func writesInShallow(n ast.Node, fn func(id *ast.Ident)) {
	ast.Inspect(n, func(n ast.Node) bool {
		switch x := n.(type) {
		case *ast.FuncLit:
			return false
		case *ast.AssignStmt:
			for _, l := range x.Lhs {
				if id := rootIdent(l); id != nil {
					fn(id)
				}
			}
		case *ast.IncDecStmt:
			if id := rootIdent(x.X); id != nil {
				fn(id)
			}
		case *ast.CallExpr:
			if f, ok := x.Fun.(*ast.Ident); ok && f.Name == "delete" && len(x.Args) > 0 {
				if id := rootIdent(x.Args[0]); id != nil {
					fn(id)
				}
			}
		case *ast.UnaryExpr:
			if x.Op == token.AND {
				if id := rootIdent(x.X); id != nil {
					fn(id)
				}
			}
		}
		return true
	})
}

func (pi *pkgInstr) isAtomicCall(c *ast.CallExpr) bool {
	se, ok := c.Fun.(*ast.SelectorExpr)
	if !ok {
		return false
	}
	id, ok := se.X.(*ast.Ident)
	if !ok {
		return false
	}
	if pn, ok := pi.info.Uses[id].(*types.PkgName); ok {
		return pn.Imported().Path() == "sync/atomic"
	}
	return false
}

// ---------------------------------------------------------------------------
// field notes: accesses to the fields of lock-carrying structs feed the
// happens-before race check (no scheduling point). A struct that carries a
// sync.Mutex / sync.RWMutex declares that its other fields are shared between
// threads; every access that is not ordered after the previous conflicting
// access by the modelled synchronisation is a lock-discipline violation (a
// field read after the unlock, a lock taken in read mode for a write, a
// missing lock) that the scheduler itself cannot interleave.

// ExtraGuarded: structs without a lock of their own whose fields are shared
// between threads under somebody else's lock.
var ExtraGuarded = map[string]bool{
	"engine.monitorBase":    true, // under its root monitor's lock
	"pool.ThreadPoolWorker": true,
	"pool.DefaultTaskQueue": true, // under the pool's queueLock
}

func isSyncType(t types.Type) bool {
	if p, ok := t.(*types.Pointer); ok {
		t = p.Elem()
	}
	n, ok := t.(*types.Named)
	if !ok || n.Obj().Pkg() == nil {
		return false
	}
	switch n.Obj().Pkg().Path() {
	case "sync", "sync/atomic":
		return true
	}
	return false
}

func lockCarrying(t types.Type) (*types.Named, bool) {
	if p, ok := t.(*types.Pointer); ok {
		t = p.Elem()
	}
	n, ok := t.(*types.Named)
	if !ok {
		return nil, false
	}
	st, ok := n.Underlying().(*types.Struct)
	if !ok {
		return nil, false
	}
	for i := 0; i < st.NumFields(); i++ {
		ft := st.Field(i).Type()
		if p, ok := ft.(*types.Pointer); ok {
			ft = p.Elem()
		}
		if fn, ok := ft.(*types.Named); ok && fn.Obj().Pkg() != nil && fn.Obj().Pkg().Path() == "sync" {
			switch fn.Obj().Name() {
			case "Mutex", "RWMutex":
				return n, true
			}
		}
	}
	return n, false
}

// guardedField: se selects a data field (not itself a sync object) of a
// lock-carrying struct declared in the repository.
func (pi *pkgInstr) guardedField(se *ast.SelectorExpr) bool {
	sel := pi.info.Selections[se]
	if sel == nil || sel.Kind() != types.FieldVal {
		return false
	}
	if isSyncType(sel.Type()) {
		return false
	}
	n, ok := lockCarrying(sel.Recv())
	if n != nil && n.Obj().Pkg() != nil && ExtraGuarded[n.Obj().Pkg().Name()+"."+n.Obj().Name()] {
		ok = true
	}
	if !ok || n.Obj().Pkg() == nil || !strings.HasPrefix(n.Obj().Pkg().Path(), "github.com/krotik/ecal") {
		return false
	}
	name := n.Obj().Pkg().Name() + "." + n.Obj().Name()
	for _, g := range pi.sum.GuardedTypes {
		if g == name {
			return true
		}
	}
	pi.sum.GuardedTypes = append(pi.sum.GuardedTypes, name)
	return true
}

// fieldName renders Type.field for race keys.
func (pi *pkgInstr) fieldName(se *ast.SelectorExpr) string {
	if sel := pi.info.Selections[se]; sel != nil {
		if n, _ := lockCarrying(sel.Recv()); n != nil {
			return n.Obj().Name() + "." + se.Sel.Name
		}
	}
	return se.Sel.Name
}

// pureRecv: the receiver expression can be evaluated ahead of the statement
// without side effects.
func pureRecv(e ast.Expr) bool {
	switch x := e.(type) {
	case *ast.Ident:
		return true
	case *ast.ParenExpr:
		return pureRecv(x.X)
	case *ast.StarExpr:
		return pureRecv(x.X)
	case *ast.SelectorExpr:
		return pureRecv(x.X)
	}
	return false
}

// fieldWrites calls fn for every selector that is written by n: assignment
// target (also through an index or slice expression: the container the field
// holds is modified), ++/--, delete, address-of.
func fieldWrites(n ast.Node, fn func(se *ast.SelectorExpr)) {
	strip := func(e ast.Expr) *ast.SelectorExpr {
		for {
			switch x := e.(type) {
			case *ast.ParenExpr:
				e = x.X
			case *ast.IndexExpr:
				e = x.X
			case *ast.SliceExpr:
				e = x.X
			case *ast.SelectorExpr:
				return x
			default:
				return nil
			}
		}
	}
	ast.Inspect(n, func(n ast.Node) bool {
		switch x := n.(type) {
		case *ast.FuncLit:
			return false
		case *ast.AssignStmt:
			for _, l := range x.Lhs {
				if se := strip(l); se != nil {
					fn(se)
				}
			}
		case *ast.IncDecStmt:
			if se := strip(x.X); se != nil {
				fn(se)
			}
		case *ast.CallExpr:
			if f, ok := x.Fun.(*ast.Ident); ok && f.Name == "delete" && len(x.Args) > 0 {
				if se := strip(x.Args[0]); se != nil {
					fn(se)
				}
			}
		case *ast.UnaryExpr:
			if x.Op == token.AND {
				if se := strip(x.X); se != nil {
					fn(se)
				}
			}
		}
		return true
	})
}
