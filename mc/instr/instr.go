// Package instr derives the instrumentation of the ecal packages mechanically
// from whatever source is in the repository at check time. It produces rewritten
// copies of the files (text splices that keep every line number) and a
// `go build -overlay` description; the repository itself is never modified.
package instr

import (
	"bytes"
	"encoding/json"
	"fmt"
	"go/ast"
	"go/importer"
	"go/parser"
	"go/token"
	"go/types"
	"io/ioutil"
	"os"
	"path/filepath"
	"sort"
	"strings"
)

const VschedImport = "github.com/krotik/ecal/zzverif/vsched"

// VatomicImport is the stand-in of sync/atomic (sources next to the vsched directory)
const VatomicImport = "github.com/krotik/ecal/zzverif/vatomic"

// Set is the instrumented set (package dirs relative to the repo root).
var Set = []string{"engine/pool", "engine/pubsub", "engine", "scope", "util", "stdlib", "parser", "interpreter"}

// Summary is reported in the evidence of every Engine-A run.
type Summary struct {
	Files        int            `json:"files_rewritten"`
	SyncImports  int            `json:"sync_imports"`
	GoStmts      int            `json:"go_statements"`
	TimeCalls    int            `json:"time_calls"`
	RandCalls    int            `json:"rand_calls"`
	MapRanges    int            `json:"map_ranges_determinised"`
	MapRangesOff []string       `json:"map_ranges_left_alone"`
	SharedVars   []string       `json:"shared_mutable_variables"`
	TouchPoints  int            `json:"touch_points"`
	FieldNotes   int            `json:"field_access_notes"`
	GuardedTypes []string       `json:"lock_carrying_struct_types"`
	Notes        []string       `json:"notes,omitempty"`
	PerPkg       map[string]int `json:"edits_per_package"`
}

type edit struct {
	off  int // byte offset in the original file
	end  int // end of replaced range (== off for insertion)
	text string
	seq  int
}

type fileEdits struct {
	path  string
	src   []byte
	edits []edit
	needV bool
	f     *ast.File
}

func (fe *fileEdits) insert(off int, text string) {
	fe.edits = append(fe.edits, edit{off, off, text, len(fe.edits)})
}
func (fe *fileEdits) replace(off, end int, text string) {
	fe.edits = append(fe.edits, edit{off, end, text, len(fe.edits)})
}

func (fe *fileEdits) apply() []byte {
	sort.SliceStable(fe.edits, func(i, j int) bool {
		a, b := fe.edits[i], fe.edits[j]
		if a.off != b.off {
			return a.off < b.off
		}
		if (a.end > a.off) != (b.end > b.off) {
			return a.end == a.off // insertions before replacements
		}
		return a.seq < b.seq
	})
	var out bytes.Buffer
	pos := 0
	for _, e := range fe.edits {
		if e.off < pos {
			// overlapping edit: skip (reported by caller through compile failure)
			continue
		}
		out.Write(fe.src[pos:e.off])
		out.WriteString(e.text)
		pos = e.end
	}
	out.Write(fe.src[pos:])
	return out.Bytes()
}

// Options selects what to instrument.
type Options struct {
	Repo      string
	Out       string   // directory for rewritten files
	VschedDir string   // directory holding the vsched sources
	Extra     []string // extra overlay-added files: "repo-relative-target=source"
	NoTouch   bool
	// NoFieldNotes switches off the race-check notes on fields of lock-carrying structs
	NoFieldNotes bool
	KeepGoIn     map[string]bool // package dirs whose go statements stay free-running
}

// Run instruments the repository and writes <Out>/overlay.json.
func Run(o Options) (*Summary, error) {
	sum := &Summary{PerPkg: map[string]int{}}
	overlay := map[string]string{}
	fset := token.NewFileSet()
	oldwd, _ := os.Getwd()
	if err := os.Chdir(o.Repo); err != nil {
		return nil, err
	}
	defer os.Chdir(oldwd)
	imp := importer.ForCompiler(fset, "source", nil)
	if o.KeepGoIn == nil {
		o.KeepGoIn = map[string]bool{"parser": true}
	}
	for _, dir := range Set {
		abs := filepath.Join(o.Repo, dir)
		ents, err := ioutil.ReadDir(abs)
		if err != nil {
			sum.Notes = append(sum.Notes, "package dir missing: "+dir)
			continue
		}
		var files []*ast.File
		var fes []*fileEdits
		for _, en := range ents {
			n := en.Name()
			if en.IsDir() || !strings.HasSuffix(n, ".go") || strings.HasSuffix(n, "_test.go") {
				continue
			}
			p := filepath.Join(abs, n)
			src, err := ioutil.ReadFile(p)
			if err != nil {
				return nil, err
			}
			f, err := parser.ParseFile(fset, p, src, parser.ParseComments)
			if err != nil {
				return nil, fmt.Errorf("parse %s: %v", p, err)
			}
			if hasIgnoreTag(f) {
				continue
			}
			files = append(files, f)
			fes = append(fes, &fileEdits{path: p, src: src, f: f})
		}
		if len(files) == 0 {
			continue
		}
		info := &types.Info{
			Types:      map[ast.Expr]types.TypeAndValue{},
			Defs:       map[*ast.Ident]types.Object{},
			Uses:       map[*ast.Ident]types.Object{},
			Scopes:     map[ast.Node]*types.Scope{},
			Selections: map[*ast.SelectorExpr]*types.Selection{},
		}
		conf := types.Config{Importer: imp, Error: func(err error) {}}
		pkgPath := "github.com/krotik/ecal/" + dir
		pkg, _ := conf.Check(pkgPath, fset, files, info)
		pi := &pkgInstr{o: &o, sum: sum, fset: fset, info: info, pkg: pkg, dir: dir, fes: fes}
		pi.run()
		for _, fe := range fes {
			if len(fe.edits) == 0 {
				continue
			}
			out := fe.apply()
			dst := filepath.Join(o.Out, dir, filepath.Base(fe.path))
			if err := os.MkdirAll(filepath.Dir(dst), 0755); err != nil {
				return nil, err
			}
			if err := ioutil.WriteFile(dst, out, 0644); err != nil {
				return nil, err
			}
			overlay[fe.path] = dst
			sum.Files++
			sum.PerPkg[dir] += len(fe.edits)
		}
	}
	// the virtual scheduler package inside the ecal module
	vents, err := ioutil.ReadDir(o.VschedDir)
	if err != nil {
		return nil, err
	}
	for _, en := range vents {
		if strings.HasSuffix(en.Name(), ".go") && !strings.HasSuffix(en.Name(), "_test.go") {
			overlay[filepath.Join(o.Repo, "zzverif", "vsched", en.Name())] = filepath.Join(o.VschedDir, en.Name())
		}
	}
	if _, err := os.Stat(filepath.Join(o.VschedDir, "..", "vatomic", "vatomic.go")); err == nil {
		overlay[filepath.Join(o.Repo, "zzverif", "vatomic", "vatomic.go")] = filepath.Join(o.VschedDir, "..", "vatomic", "vatomic.go")
	}
	for _, x := range o.Extra {
		kv := strings.SplitN(x, "=", 2)
		overlay[filepath.Join(o.Repo, kv[0])] = kv[1]
	}
	sort.Strings(sum.SharedVars)
	sort.Strings(sum.MapRangesOff)
	js, _ := json.MarshalIndent(map[string]interface{}{"Replace": overlay}, "", " ")
	if err := os.MkdirAll(o.Out, 0755); err != nil {
		return nil, err
	}
	if err := ioutil.WriteFile(filepath.Join(o.Out, "overlay.json"), js, 0644); err != nil {
		return nil, err
	}
	sj, _ := json.MarshalIndent(sum, "", " ")
	ioutil.WriteFile(filepath.Join(o.Out, "instr_summary.json"), sj, 0644)
	return sum, nil
}

func hasIgnoreTag(f *ast.File) bool {
	for _, cg := range f.Comments {
		if cg.Pos() > f.Package {
			break
		}
		for _, c := range cg.List {
			if strings.HasPrefix(c.Text, "//go:build ignore") || strings.HasPrefix(c.Text, "// +build ignore") {
				return true
			}
		}
	}
	return false
}

type pkgInstr struct {
	o    *Options
	sum  *Summary
	fset *token.FileSet
	info *types.Info
	pkg  *types.Package
	dir  string
	fes  []*fileEdits

	mutable map[*types.Var]bool // shared mutable variables
	labeled map[ast.Stmt]bool
}

func (pi *pkgInstr) off(p token.Pos) int { return pi.fset.Position(p).Offset }

func (pi *pkgInstr) text(fe *fileEdits, n ast.Node) string {
	return string(fe.src[pi.off(n.Pos()):pi.off(n.End())])
}

func importName(f *ast.File, path string) (string, *ast.ImportSpec) {
	for _, is := range f.Imports {
		if strings.Trim(is.Path.Value, `"`) == path {
			if is.Name != nil {
				return is.Name.Name, is
			}
			return path[strings.LastIndex(path, "/")+1:], is
		}
	}
	return "", nil
}

func (pi *pkgInstr) run() {
	if !pi.o.NoTouch {
		pi.findShared()
	}
	pi.labeled = map[ast.Stmt]bool{}
	for _, fe := range pi.fes {
		ast.Inspect(fe.f, func(n ast.Node) bool {
			if l, ok := n.(*ast.LabeledStmt); ok {
				pi.labeled[l.Stmt] = true
			}
			return true
		})
		pi.rewriteFile(fe)
	}
}

func (pi *pkgInstr) rewriteFile(fe *fileEdits) {
	f := fe.f
	syncName, syncSpec := importName(f, "sync")
	timeName, _ := importName(f, "time")
	randName, _ := importName(f, "math/rand")
	atomicName, atomicSpec := importName(f, "sync/atomic")
	if atomicSpec != nil {
		// same identifier, stand-in package: every atomic operation is a scheduling point
		fe.replace(pi.off(atomicSpec.Pos()), pi.off(atomicSpec.End()), atomicName+` "`+VatomicImport+`"`)
		pi.sum.Notes = append(pi.sum.Notes, "sync/atomic imported by "+fe.path+" (replaced by the vatomic stand-in: scheduling point + synchronisation edge per operation)")
	}
	if syncSpec != nil {
		// same identifier, other package
		fe.replace(pi.off(syncSpec.Pos()), pi.off(syncSpec.End()), syncName+` "`+VschedImport+`"`)
		pi.sum.SyncImports++
	}
	isPkgSel := func(e ast.Expr, pkgName, sel string) bool {
		se, ok := e.(*ast.SelectorExpr)
		if !ok || se.Sel.Name != sel {
			return false
		}
		id, ok := se.X.(*ast.Ident)
		if !ok || id.Name != pkgName {
			return false
		}
		if obj := pi.info.Uses[id]; obj != nil {
			_, isPkg := obj.(*types.PkgName)
			return isPkg
		}
		return true
	}
	// statement-level rewrites need the parent statement lists
	ast.Inspect(f, func(n ast.Node) bool {
		switch x := n.(type) {
		case *ast.CallExpr:
			if timeName != "" {
				if isPkgSel(x.Fun, timeName, "Sleep") {
					fe.replace(pi.off(x.Fun.Pos()), pi.off(x.Fun.End()), "vsched.Sleep")
					fe.needV = true
					pi.sum.TimeCalls++
				} else if isPkgSel(x.Fun, timeName, "Now") {
					fe.replace(pi.off(x.Fun.Pos()), pi.off(x.Fun.End()), "vsched.Now")
					fe.needV = true
					pi.sum.TimeCalls++
				}
			}
			if randName != "" {
				if isPkgSel(x.Fun, randName, "Intn") {
					fe.replace(pi.off(x.Fun.Pos()), pi.off(x.Fun.End()), "vsched.Intn")
					fe.needV = true
					pi.sum.RandCalls++
				} else if isPkgSel(x.Fun, randName, "Float64") {
					fe.replace(pi.off(x.Fun.Pos()), pi.off(x.Fun.End()), "vsched.Float64")
					fe.needV = true
					pi.sum.RandCalls++
				}
			}
		case *ast.GoStmt:
			pi.rewriteGo(fe, x, pi.o.KeepGoIn[pi.dir])
		case *ast.RangeStmt:
			pi.rewriteRange(fe, x)
		}
		return true
	})
	if !pi.o.NoTouch {
		pi.insertTouches(fe)
	}
	if fe.needV || len(fe.edits) > 0 {
		// add the vsched import right after the package clause (same line) and
		// keep possibly orphaned imports alive
		fe.insert(pi.off(f.Name.End()), `; import vsched "`+VschedImport+`"`)
		extra := "\nvar _ = vsched.Active\n"
		if timeName != "" {
			extra += "var _ = " + timeName + ".Nanosecond\n"
		}
		if randName != "" {
			extra += "var _ = " + randName + ".Int\n"
		}
		fe.insert(len(fe.src), extra)
	}
}

func (pi *pkgInstr) rewriteGo(fe *fileEdits, g *ast.GoStmt, helper bool) {
	fn := "vsched.Go"
	if helper {
		// free-running helper goroutine owned by the spawning thread
		fn = "vsched.GoHelper"
	}
	call := g.Call
	// builtin or conversion targets cannot be bound to a value: leave alone
	if tv, ok := pi.info.Types[call.Fun]; ok && (tv.IsBuiltin() || tv.IsType()) {
		pi.sum.Notes = append(pi.sum.Notes, "go statement with builtin/conversion left alone in "+fe.path)
		return
	}
	// `go F(a, b)` becomes
	// `{ _vf := F; _va0 := a; _va1 := b; vsched.Go(func() { _vf(_va0, _va1) }) }`
	// as two splices around the (untouched) text of F, so that rewrites nested
	// inside a function literal F are kept.
	fe.replace(pi.off(g.Pos()), pi.off(call.Fun.Pos()), "{ _vf := ")
	var b strings.Builder
	var args []string
	for i, a := range call.Args {
		fmt.Fprintf(&b, "; _va%d := %s", i, pi.text(fe, a))
		args = append(args, fmt.Sprintf("_va%d", i))
	}
	ell := ""
	if call.Ellipsis.IsValid() {
		ell = "..."
	}
	fmt.Fprintf(&b, "; %s(func() { _vf(%s%s) }) }", fn, strings.Join(args, ", "), ell)
	fe.replace(pi.off(call.Fun.End()), pi.off(g.End()), b.String())
	fe.needV = true
	pi.sum.GoStmts++
}

func (pi *pkgInstr) rewriteRange(fe *fileEdits, r *ast.RangeStmt) {
	tv, ok := pi.info.Types[r.X]
	if !ok {
		return
	}
	mt, ok := tv.Type.Underlying().(*types.Map)
	if !ok {
		return
	}
	pos := pi.fset.Position(r.Pos())
	where := fmt.Sprintf("%s:%d", strings.TrimPrefix(pos.Filename, pi.o.Repo+"/"), pos.Line)
	kb, ok := mt.Key().Underlying().(*types.Basic)
	var helper, conv string
	if ok {
		switch {
		case kb.Kind() == types.String:
			helper = "KeysString"
		case kb.Info()&types.IsUnsigned != 0:
			helper = "KeysUint64"
		case kb.Info()&types.IsInteger != 0:
			helper = "KeysInt64"
		}
	}
	if helper == "" {
		pi.sum.MapRangesOff = append(pi.sum.MapRangesOff, where+" key "+mt.Key().String())
		return
	}
	conv = types.TypeString(mt.Key(), func(p *types.Package) string {
		if p == pi.pkg {
			return ""
		}
		return p.Name()
	})
	if strings.Contains(conv, ".") {
		// key type from another package: would need that import's local name
		pi.sum.MapRangesOff = append(pi.sum.MapRangesOff, where+" key "+mt.Key().String())
		return
	}
	// only rewrite loops inside go-statement-free single line headers
	xs := pi.text(fe, r.X)
	if strings.Contains(xs, "\n") {
		pi.sum.MapRangesOff = append(pi.sum.MapRangesOff, where+" multi-line expression")
		return
	}
	keyName, valName := "_", "_"
	if r.Key != nil {
		keyName = pi.text(fe, r.Key)
	}
	if r.Value != nil {
		valName = pi.text(fe, r.Value)
	}
	asg := ":="
	if r.Tok == token.ASSIGN {
		asg = "="
	}
	var b strings.Builder
	if pi.labeled[r] {
		pi.sum.MapRangesOff = append(pi.sum.MapRangesOff, where+" labeled loop")
		return
	}
	fmt.Fprintf(&b, "{ _vm := %s; for _, _vk := range vsched.%s(_vm) { _vkk := %s(_vk); _vv, _vok := _vm[_vkk]; if !_vok { continue }; _ = _vv; ", xs, helper, conv)
	if keyName != "_" {
		fmt.Fprintf(&b, "%s %s _vkk; ", keyName, asg)
		if asg == ":=" {
			fmt.Fprintf(&b, "_ = %s; ", keyName)
		}
	}
	if valName != "_" {
		fmt.Fprintf(&b, "%s %s _vv; ", valName, asg)
		if asg == ":=" {
			fmt.Fprintf(&b, "_ = %s; ", valName)
		}
	}
	// replace "for ... {" up to and including the opening brace of the body
	fe.replace(pi.off(r.Pos()), pi.off(r.Body.Lbrace)+1, b.String())
	fe.insert(pi.off(r.End()), " }")
	fe.needV = true
	pi.sum.MapRanges++
}
