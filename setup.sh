#!/bin/sh
# MANIFEST.setup_cmd: build the framework from files on disk only (offline).
set -e
export GOFLAGS=-mod=mod GOPROXY=off GOSUMDB=off GOTOOLCHAIN=local
cd /verif
./bin/check build
