#!/bin/sh
# tools/seedconfirm.sh <property> <label>: demo fails with the change, passes without; suite passes with the change
wt=/tmp/wt-$1; demo=$(cat /verif/seeded/$2/demo_path.txt); pkg=$(dirname $demo)
export GOFLAGS=-mod=mod GOPROXY=off GOSUMDB=off GOTOOLCHAIN=local
cd $wt || exit 2
with=$(go test -vet=off -count=1 ./$pkg/ 2>&1 | tail -1 | cut -c1-60)
git diff > /tmp/confirm-$2.patch; git apply -R /tmp/confirm-$2.patch
without=$(go test -vet=off -count=1 ./$pkg/ 2>&1 | tail -1 | cut -c1-60)
git apply /tmp/confirm-$2.patch
mv $demo /tmp/confirm-$2-demo.go
suite=$(go test -vet=off -count=1 ./... 2>&1 | grep -c "^FAIL\|^--- FAIL")
mv /tmp/confirm-$2-demo.go $demo
echo "$2: with=[$with] without=[$without] suite_failures=$suite"
