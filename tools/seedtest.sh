#!/bin/sh
# tools/seedtest.sh <property> <patch.diff> [tier]
# Applies a seeded change to /repo, runs the property's check, reverts.
# Exit status: 0 = the check reported a VIOLATION (detected), 1 = not detected, 2 = patch/harness problem.
set -u
prop=$1; patch=$2; tier=${3:-quick}; shift; shift; [ $# -gt 0 ] && shift
cd /repo || exit 2
if [ -n "$(git status --porcelain)" ]; then echo "seedtest: /repo is not clean" >&2; exit 2; fi
git apply "$patch" || { echo "seedtest: patch does not apply" >&2; exit 2; }
out=$(cd /verif && ./bin/check "$prop" --tier "$tier" "$@" 2>&1); rc=$?
git checkout -q -- .
echo "$out" | grep -E "^VIOLATION|^  key|^OK|^KNOWN|harness|check:" | cut -c1-240 | head -12
if [ $rc -eq 1 ]; then echo "DETECTED ($prop, $tier)"; exit 0; fi
if [ $rc -eq 0 ]; then echo "NOT DETECTED ($prop, $tier)"; exit 1; fi
echo "HARNESS PROBLEM rc=$rc"; exit 2
