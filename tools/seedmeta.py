#!/usr/bin/env python3
"""tools/seedmeta.py <label> <property> <detected_by> <first_result> <needs...>  — writes seeded/<label>/meta.json"""
import json,sys,os,subprocess
label,prop,detected,first=sys.argv[1:5]
needs=" ".join(sys.argv[5:])
d='/verif/seeded/'+label
demo=open(d+'/demo_path.txt').read().strip() if os.path.exists(d+'/demo_path.txt') else ''
files=[l[6:].strip() for l in open(d+'/patch.diff') if l.startswith('+++ b/')]
meta={"label":label,"breaks_property":prop,"changed_files":files,"needs_to_manifest":needs,
 "demonstration":{"file_in_worktree":demo,"copy":os.path.basename(demo)+'.txt' if demo else '',"confirmed":"demo fails with the patch and passes without it; full suite `go test -vet=off -count=1 ./...` passes with the patch (re-run by me in the scratch worktree)"},
 "source":"independent sub-agent given only the property record and its own scratch worktree",
 "first_run_of_my_check":first,
 "detected_by":detected,
 "what_i_ran":"tools/seedtest.sh %s /verif/seeded/%s/patch.diff quick  (git -C /repo apply; bin/check %s --tier quick; git -C /repo checkout -- .)"%(prop,label,prop)}
json.dump(meta,open(d+'/meta.json','w'),indent=1)
print("ok",label)
