#!/bin/sh
# tools/coverage.sh [props...]  — development aid: which statements of /repo do the quick checks execute?
# Builds the workers with -cover (VERIF_COVER=1), runs the quick tier of the given (default: all) properties
# with GOCOVERDIR set, and prints the statements of the non-test repository files that were never executed.
# Coverage data and report live under /tmp/verif-cov (scratch; nothing registered in MANIFEST.json needs it).
set -u
export GOFLAGS=-mod=mod GOPROXY=off GOSUMDB=off GOTOOLCHAIN=local
cov=/tmp/verif-cov; rm -rf $cov; mkdir -p $cov/data
props=${*:-C01 C02 C03 C04 C05 C06 C07 C08 C09 C10 C11 C12 C13 C14 C15 C16 C17 C18 C19 C20}
for p in $props; do
  mkdir -p $cov/data/$p
  VERIF_COVER=1 GOCOVERDIR=$cov/data/$p /verif/bin/check $p --tier quick 2>&1 | grep -E "^OK|VIOLATION|harness" | cut -c1-160
  go tool covdata textfmt -i=$cov/data/$p -o $cov/$p.txt 2>/dev/null
done
python3 /verif/tools/coverage_report.py $cov $props
