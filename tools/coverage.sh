#!/bin/bash
# tools/coverage.sh [props...]  — development aid: which statements of /repo do the quick checks execute?
# `go build -cover` ignores -overlay, so the overlays are materialised: /repo is copied to scratch, the
# overlay files (instrumented sources for Engine A, seams for Engine B) are written into two copies, the
# worker binaries are built from those with -cover, and every job of the quick tier is run once
# (single shard, 60 s budget) with GOCOVERDIR set. Everything lives under /tmp/verif-cov (scratch).
set -u
export GOFLAGS=-mod=mod GOPROXY=off GOSUMDB=off GOTOOLCHAIN=local
cov=/tmp/verif-cov; rm -rf $cov; mkdir -p $cov
props=${*:-C01 C02 C03 C04 C05 C06 C07 C08 C09 C10 C11 C12 C13 C14 C15 C16 C17 C18 C19 C20}
/verif/bin/check build >/dev/null 2>&1 || { echo "build failed"; exit 2; }
b=/verif/.build/$(ls -t /verif/.build | grep '^h-' | grep -v cover | head -1)
for eng in A B; do
  rsync -a --exclude .git /repo/ $cov/repo$eng/
  rsync -a --exclude .build /verif/mc/ $cov/mc$eng/
  sed -i "s#=> /repo#=> $cov/repo$eng#" $cov/mc$eng/go.mod
done
python3 - "$b" "$cov" <<'PY'
import json,sys,os,shutil
b,cov=sys.argv[1:3]
for eng,f in (('A',b+'/instr/overlay.json'),('B',b+'/seams.json')):
    o=json.load(open(f))['Replace']
    for dst,src in o.items():
        assert dst.startswith('/repo/')
        d=cov+'/repo'+eng+dst[len('/repo'):]
        os.makedirs(os.path.dirname(d),exist_ok=True)
        shutil.copy(src,d)
PY
(cd $cov/mcA && go build -cover -coverpkg=all -o $cov/mcsched ./cmd/mcsched) || exit 2
(cd $cov/mcB && go build -cover -coverpkg=all -o $cov/mcseq ./cmd/mcseq) || exit 2
for p in $props; do
  mkdir -p $cov/data/$p
  for sc in $($cov/mcsched -list -prop $p | python3 -c "import json,sys; [print(x['Name']) for x in json.load(sys.stdin)]" 2>/dev/null); do
    GOMAXPROCS=1 GOCOVERDIR=$cov/data/$p timeout 900 $cov/mcsched -prop $p -scenario "$sc" -tier quick -bound 1 -fbound 1 -budget 20 >/dev/null 2>&1 &
    while [ $(jobs -r | wc -l) -ge 14 ]; do sleep 0.5; done
  done
  for pt in $($cov/mcseq -list -prop $p | python3 -c "import json,sys; [print(x['Name']) for x in json.load(sys.stdin)]" 2>/dev/null); do
    GOMAXPROCS=2 GOCOVERDIR=$cov/data/$p timeout 600 $cov/mcseq -prop $p -part "$pt" -tier quick -shard 0 -nshards 1 -budget 90 >/dev/null 2>&1 &
    while [ $(jobs -r | wc -l) -ge 14 ]; do sleep 0.5; done
  done
done
wait
for p in $props; do go tool covdata textfmt -i=$cov/data/$p -o $cov/$p.txt 2>/dev/null; done
python3 /verif/tools/coverage_report.py $cov $props
