#!/usr/bin/env python3
"""Prints the markdown table of seeded changes (DESIGN.md 12.6) from seeded/*/meta.json."""
import json,glob
rows=[]
for d in sorted(glob.glob('/verif/seeded/C*')):
    try: m=json.load(open(d+'/meta.json'))
    except Exception: continue
    first='first run' if m['first_run_of_my_check'].startswith('detected') else ('no longer breaks the property (tree repaired)' if m['first_run_of_my_check'].startswith('not applicable') else ('NOT caught' if m['first_run_of_my_check'].startswith('missed and left') else 'after strengthening'))
    if m.get('invalidated_by'): first+='; made harmless by fix '+m['invalidated_by']
    rows.append((m['label'],m['breaks_property'],", ".join(m['changed_files']),m['needs_to_manifest'],m['detected_by'],first,m['first_run_of_my_check'],bool(m.get('invalidated_by'))))
print("| seeded change | files | needs to manifest | caught by | when |")
print("|---|---|---|---|---|")
for r in rows:
    print("| %s | %s | %s | %s | %s |"%(r[0],r[2],r[3].replace('|','/'),r[4].replace('|','/'),r[5]))
print()
print("Misses at first run and what was strengthened:")
print()
for r in rows:
    if not r[6].startswith('detected'):
        print("* **%s** — %s"%(r[0],r[6]))
n=len(rows); f=sum(1 for r in rows if r[6].startswith('detected')); inv=sum(1 for r in rows if r[7]); na=sum(1 for r in rows if r[6].startswith('not applicable')); left=sum(1 for r in rows if r[6].startswith('missed and left'))
print()
print("%d seeded changes: %d caught by the check as it was when the change arrived, %d only after the check was strengthened, %d not caught and left (outside the harness, see its row), %d never run because the scenario written for it found the same failure on the unchanged tree. %d were later made harmless by the repair of a genuine defect they leaned on. The %d that break their property and are within reach are reported on every run of the quick tier (tools/seedall.sh is the regression over all patches) and the unchanged tree stays silent."%(n,f,n-f-na-left,left,na,inv,n-inv-left))
