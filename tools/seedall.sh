#!/bin/sh
# tools/seedall.sh [tier] [property ...]  — regression over every recorded seeded change: applies each patch to /repo (current HEAD),
# runs the property's check, reverts. Prints one line per change; changes whose meta says they no longer break the
# property are expected to pass.
tier=${1:-quick}; [ $# -gt 0 ] && shift
props=" $* "
for d in /verif/seeded/C*; do
  l=$(basename $d); p=$(echo $l | cut -d- -f1)
  [ "$props" = "  " ] || case "$props" in *" $p "*) ;; *) continue;; esac
  [ -f $d/patch.diff ] || continue
  na=$(python3 -c "import json;print(bool(json.load(open('$d/meta.json')).get('invalidated_by')) or json.load(open('$d/meta.json'))['first_run_of_my_check'].startswith('missed and left'))" 2>/dev/null)
  r=$(/verif/tools/seedtest.sh $p $d/patch.diff $tier 2>&1 | tail -1)
  echo "$l $r $( [ "$na" = True ] && echo '(expected: see meta.json)')"
done
