#!/bin/sh
# tools/regen_known_inputs.sh  — regenerates /verif/known_inputs/<prop>.txt for the known findings that are
# recorded per failing input (see mc/cmd/mcseq/main.go, knownInputs). Run ONLY on the tree the findings were
# recorded on (the repaired /repo HEAD), after changing an enumeration that feeds such a finding. Both tiers
# are run because the thorough tier enumerates more inputs.
set -u
cd /verif || exit 2
[ -z "$(git -C /repo status --porcelain)" ] || { echo "/repo is not clean"; exit 2; }
for p in C08; do
  tmp=$(mktemp)
  : > known_inputs/$p.txt
  VERIF_DUMP_VIOL=$tmp ./bin/check $p --tier quick >/dev/null 2>&1
  VERIF_DUMP_VIOL=$tmp ./bin/check $p --tier thorough >/dev/null 2>&1
  sort -u $tmp > known_inputs/$p.txt
  rm -f $tmp
  wc -l known_inputs/$p.txt
done
