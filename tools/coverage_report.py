#!/usr/bin/env python3
"""coverage_report.py <dir> <props...>: per property, the uncovered statement ranges in the files the property is anchored in;
overall: uncovered ranges per repository file over all properties together."""
import sys,json,collections,os,re
d=sys.argv[1]; props=sys.argv[2:]
anch={}
for l in open('/verif/properties.jsonl'):
    p=json.loads(l); anch[p['id']]=[f for f in p['anchors'].get('files',[])]
def load(f):
    cov=collections.defaultdict(int)
    if not os.path.exists(f): return cov
    for l in open(f):
        if l.startswith('mode:'): continue
        m=re.match(r'(.*):(\d+)\.(\d+),(\d+)\.(\d+) (\d+) (\d+)',l)
        if not m: continue
        file=m.group(1).replace('github.com/krotik/ecal/','')
        key=(file,int(m.group(2)),int(m.group(4)))
        cov[key]+=int(m.group(7))
    return cov
total=collections.defaultdict(int)
out={}
for p in props:
    c=load('%s/%s.txt'%(d,p))
    for k,v in c.items(): total[k]+=v
    unc=collections.defaultdict(list)
    for (f,a,b),v in sorted(c.items()):
        if v==0 and any(f==x or f.startswith(x.rstrip('/')+'/') for x in anch.get(p,[])): unc[f].append((a,b))
    out[p]=unc
    n=sum(len(v) for v in unc.values()); tot=sum(1 for (f,a,b) in c if any(f==x for x in anch.get(p,[])))
    print('%s: %d of %d statement blocks in its anchor files never executed'%(p,n,tot))
    for f,rs in unc.items():
        print('   %s: %s'%(f,' '.join('%d-%d'%r if r[0]!=r[1] else str(r[0]) for r in rs[:60])))
json.dump({p:{f:rs for f,rs in u.items()} for p,u in out.items()},open(d+'/uncovered.json','w'))
print('== overall (all listed properties together), files with uncovered blocks:')
per=collections.defaultdict(lambda:[0,0])
for (f,a,b),v in total.items():
    per[f][1]+=1
    if v==0: per[f][0]+=1
for f,(u,t) in sorted(per.items()):
    if u and not f.startswith('zzverif') and '/zz_' not in f: print('   %-40s %4d / %4d'%(f,u,t))
