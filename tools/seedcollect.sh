#!/bin/sh
# tools/seedcollect.sh <property> <label>   collects git diff + demo from /tmp/wt-<property> into seeded/<label>/
prop=$1; label=$2; wt=/tmp/wt-$prop; d=/verif/seeded/$label
mkdir -p $d
git -C $wt diff > $d/patch.diff
for f in $(git -C $wt status --porcelain | grep '^??' | awk '{print $2}'); do cp $wt/$f $d/$(basename $f).txt; echo "$f" > $d/demo_path.txt; done
wc -l < $d/patch.diff
