#!/usr/bin/env python3
"""Regenerates /verif/MANIFEST.json from the table below (kept in one place so
that claiming a property is a one-line change)."""
import json

SCHED_NOTE = ("sequential consistency; a thread runs atomically between scheduling points (sync operations, sleeps, go, "
              "accesses to mutable package-level / escaping-closure variables found by the instrumenter, sync/atomic operations and sync.Pool Get/Put through stand-ins - the pool is a deterministic LIFO model); accesses to the fields of "
              "lock-carrying structs are not interleaved but feed a vector-clock happens-before check in every scenario (6 single-word / set-once "
              "races of the unchanged tree are allow-listed, DESIGN.md 4.4); shim fidelity to "
              "package sync; schedules within the preemption and free-choice bounds stated in the evidence")
SCHED_TECH = ("stateless model checking of the implementation: preemption-bounded exhaustive enumeration of schedules of "
              "closed drivers under a hand-written controlled scheduler (vsched)")

CHECKS = {
 "C09": dict(engine="engine-A", cat="model_checking", ref="DESIGN.md 4, 7/C09", note=SCHED_NOTE, tech=SCHED_TECH,
   text="every schedule of 32 closed drivers of the real engine/pool.ThreadPool (1-3 workers, 1-3 tasks single/burst, a burst of two whose first task waits for the second to start, WaitAll, "
        "JoinAll with a task that submits a task, resize sequences incl. negative counts with tasks arriving from a second thread, the queue-filling "
        "callback with threshold 1 while a second thread waits in WaitAll, Finish() of a processor while another thread adds an event) within preemption "
        "bound 1-3 and free-choice bound 3 is executed; oracle: no deadlock/livelock while a worker exists and a task is queued, "
        "every task ran exactly once, WaitAll/JoinAll/SetWorkerCount post-conditions"),
 "C02": dict(engine="engine-A", also=["engine-B"], cat="model_checking", ref="DESIGN.md 4, 7/C02", note=SCHED_NOTE, tech=SCHED_TECH,
   text="every schedule (preemption bound 1-3, free-choice bound 3) of 44 drivers of the real engine.Processor: 12 cascade shapes "
        "(fan-out, depth, skipped child, failing rules at any position, two children failing at the same time, two rules with/without fail-on-first-error, non-triggering "
        "root) x 1-3 workers plus two cascades in flight; oracle evaluated at the instant AddEventAndWait returns (all actions of "
        "the cascade finished, exactly the expected rules ran, error report exact) and at quiescence (finish handler exactly once, "
        "all monitors finished, no deadlock, no panic, no 'left events behind'); pairs of cascades with a non-triggering root; cascades with the pool's too-many-tasks threshold at 1 (load regulation code on every add / empty dequeue, bound 2); plus (Engine B) the "
        "error report seen from ECAL (addEventAndWait inside try/except: type, detail, data of every failing sink of the cascade, over sink "
        "sets x failing subsets x raise forms)"),
 "C12": dict(engine="engine-A", cat="model_checking", ref="DESIGN.md 4, 7/C12", note=SCHED_NOTE + "; thread ids are non-zero (NewThreadID never returns 0)", tech=SCHED_TECH,
   text="every schedule (preemption bound 1-3) of 42 drivers of the real interpreter: 2-3 threads evaluating functions directly with own thread "
        "ids, and two sink invocations on 2 workers plus one direct evaluation, entering mutex blocks of names {m,n}, nesting depth 1-3, six "
        "exit kinds (normal, raise, runtime error, return, break, continue), also a completed nested block followed by another one of the same name; oracle: occupancy of a name never exceeds 1 (harness enter/leave "
        "functions called from ECAL), a schedule with two different names occupied is found, nested same-name entry never blocks, no deadlock, "
        "no lost update on a counter updated only inside the block, owner table and mutexes released at the end; thread ids are allocated inside "
        "the threads and must be pairwise distinct; no unordered access to a field of a lock-carrying struct (e.g. the thread-id counter); a host "
        "thread keeps its id over Finish / Start of the processor and still excludes the new workers; after the pool is shrunk without waiting and grown again (workers still leaving) a fresh host id differs from every live worker's id (bound 2 quick) and host and sink still exclude each other"),
 "C11": dict(engine="engine-A", also=["engine-B"], cat="model_checking", ref="DESIGN.md 4, 7/C11", note=SCHED_NOTE, tech=SCHED_TECH,
   text="every schedule (preemption bound 1-2, free-choice bound 1) of 13 drivers: 2-3 events with every mix of failing/succeeding payloads "
        "trigger the same ECAL sink (and two sinks sharing a global function; sinks writing different globals / entries of one global container; a script that has its own global variable called event, which must keep its value) on 2-3 workers, each added with wait from its own thread; oracle: "
        "every invocation sees its own event and its own let-local at every probe, the error report of each root is exactly (type, detail, "
        "data) of its own payload, no panic, no happens-before race on any instrumented shared variable or lock-carrying struct field; plus (Engine B, "
        "sequential) for a 14-program corpus covering every statement and operator kind, at top level, inside a function called twice and inside a "
        "sink triggered twice: a reflective snapshot of the whole AST + runtime-component tree (unexported fields, spare capacity) is identical before "
        "and after evaluation - the tree is shared by all concurrent invocations, so evaluation must not write to it; and for sink-like rule sets "
        "(0-9 sinks on test.* x 32 subsets of exact-kind sinks x 16 ordered event pairs) RuleIndex.Match returns exactly the matching sinks and "
        "leaves the index (spare slice capacity included) untouched; differential isolation: for 15 sink bodies that write no global variable, event 2 "
        "processed alone and processed after event 1 give the same observations and error report; scheduled scenarios in which two invocations write "
        "different global variables / different entries of one global map and list without an ECAL mutex (element writes into ECAL containers are tracked locations of the race check)"),
 "C13": dict(engine="engine-A", also=["engine-B"], cat="model_checking", ref="DESIGN.md 4, 7/C13", note=SCHED_NOTE + "; the lexer goroutine of a Parse call is a free-running helper (single-producer/single-consumer pipe private to the call) whose accesses to instrumented variables are attributed to its owner thread for the race check", tech=SCHED_TECH,
   text="every schedule (preemption bound 1-3) of 17 drivers in which 2-3 threads run parser.Parse / ParseWithRuntime (and Validate+Eval of an "
        "interpolating string) on texts with if/elif/else, for, map literals, nested maps, a syntax error; scheduling points are the accesses to "
        "the mutable package-level variables of parser/ and interpreter/ that the instrumenter finds in the current tree (listed in the evidence); "
        "(two scenarios start with a parse that fails on its very first token); oracle: each concurrent result equals the sequential result, later sequential parses still do, runtime-component ids are pairwise "
        "distinct, no happens-before race on any instrumented variable, no panic; plus (Engine B, sequential) for 23 corpus texts and 40 generated "
        "texts with characters the process has never lexed x {Parse, ParseWithRuntime}: a reflective snapshot of EVERY package-level variable of "
        "parser and interpreter (accessor generated from the working tree; the locked instance counter excepted) is identical before and after"),
 "C15": dict(engine="engine-A", cat="model_checking", ref="DESIGN.md 4, 7/C15", note=SCHED_NOTE + "; the debugger console is modelled by a driver thread that polls `status` (a yielding sleep) and answers every reported suspension with the next command of its script", tech=SCHED_TECH + " + exhaustive enumeration of breakpoint sets x command scripts under the default schedule",
   text="(1) for 10 programs (straight line, function calls 1-2 deep, a call as argument of a call, nested block scopes with a range loop inside a function, recursion 12 frames deep - beyond the initial capacity of the debugger's per-thread stacks -, loop, try/raise, if/else, runtime error) every breakpoint subset of <= 2 "
        "lines x every command script of length <= 2 over {resume, stepin, stepover, stepout} plus stop-all variants is run on fresh real "
        "debuggers (about 3500 configurations) and compared with the undebugged run (result, log, final variables) and, with break-on-error off, "
        "with the suspension lines derived from the program's line trace; (1b) on a 12-line program every history of <= 2 (thorough 3) breakpoint "
        "commands over {break, rmbreak, disablebreak} x lines {1, 2, 10, 12} + {rmbreak v, break vv:1, rmbreak vv} and of <= 4 (thorough 5) commands over "
        "a reduced alphabet (two lines): the table reported by status "
        "must equal a reference map and the thread must suspend exactly at the lines the reference says are active; (2) 17 selected configurations are explored under every schedule "
        "with <= 2 (thorough 3) preemptions: all timings of the continue / stop command relative to the thread reaching its wait; (3) the four "
        "continue commands while a SECOND program thread keeps entering and leaving functions; oracle: the "
        "thread always leaves suspension (no deadlock / endless polling), no panic, same outcome as undebugged, with break-on-error off the sequence "
        "of suspension lines equals the one derived from the line trace under every schedule, no unordered access to a debugger field"),
 "C16": dict(engine="engine-A", cat="model_checking", ref="DESIGN.md 5.3, 7/C16", note="default schedule only (the property is about the command interface, not about timing); canonical state = status output, per-thread (running, error, stack depth, line), breakpoint table and global variables; the debugger lock is read off the vsched shim through an overlay-added export seam", tech="explicit-state breadth-first search over the real debugger object: a state is the command history that reaches it, successors are built on fresh objects by replay, de-duplicated on a canonical observable form, invariant evaluated after every command",
   text="from 13 debugger states (incl. a list variable with container paths as extract / inject targets, nested block scopes, a call inside a call argument, threads suspended in scope chains that do not end in the global scope - the default value of a constructor parameter under new(), the second call of a chained call o.f().g(); every state's breadth-first search stops deterministically after 3500 transitions (thorough tier only; reported as caps_hit); the original 8: (nothing executed, program finished, thread suspended at top level / 1 / 2 calls deep / on an error with map "
        "data / at the first-ever visit of a single-statement program by breakpoint and by break-on-start)) every command line of a 140-390 line menu (10 commands + unknown, 0-4 arguments over valid/finished/zero/negative/huge/non-numeric "
        "thread ids, known/unknown/malformed source:line targets, identifiers, expressions, garbage) is applied in every distinct canonical "
        "state up to depth 2 (thorough 3); invariant: no panic, result JSON-encodable when the error is nil, debugger lock free afterwards, "
        "released threads run on without fault, a following status answers and is JSON-encodable, StopThreads releases the thread; plus 18 "
        "concurrent scenarios (5 of them address a running, never suspended thread parked in the middle of its program) (a command issued while a second program thread keeps running, every schedule with <= 1-2 preemptions): no deadlock, "
        "no panic, no unordered access to a debugger field (map iteration / lookup racing with a map write)"),
 "C10": dict(engine="engine-A", cat="model_checking", ref="DESIGN.md 5.3, 7/C10", note=SCHED_NOTE + "; the order in which workers take events is read off the recorded schedule (acquisition order of the task queue's lock), so no linearizability search is needed; rules of equal priority may run in any order", tech="explicit-state breadth-first search over real monitor objects + exhaustive enumeration of priority assignments on the real processor + preemption-bounded schedule enumeration for the concurrent part",
   text="(i) every priority sequence in {0,1,2}^<=5 (thorough <=6) queued for one cascade and split over two cascades while the single worker is parked: "
        "pop order must be priority-FIFO (728 cases); (ii) 3 rules x priorities {0,1,2}^3 x failing subset x fail-on-first-error on/off x 'failing rule "
        "added an event first' = 864 cases through ProcessEvent: ascending priority, nothing after the first failure when the flag is set, added events "
        "still processed, exact error report; (ii-b) the same with priorities from {MinInt64, MinInt64+1, -1, 0, 1, MaxInt64-1, MaxInt64}^3 (5488 cases); "
        "(ii-c) the same after the rule set was replaced through Reset; (ii-d, Engine B) 3 ECAL sinks x priorities {-2, -1, 0, 1, 2.7}^3 x failing subset; "
        "(iii) breadth-first search over monitor operation histories {new child(p), activate, skip, finish} on "
        "real monitors (up to 4-5 monitors, depth 8-10, canonical state = multiset of (priority, status)): HighestPriority == lowest number among "
        "activated unfinished monitors else -1; (iv) 5 concurrent drivers (2-3 workers, mixed priorities) under every schedule with <= 1-2 preemptions: "
        "no event is taken while a more urgent or older-equal event of its cascade is queued; (v) two events with 2-3 rules each processed at the same time on 2 workers (every action yields, first rule failing or not): "
        "each event runs exactly its own rules in ascending priority"),
 "C17": dict(engine="engine-B", cat="exploration", ref="DESIGN.md 5, 7/C17", note="lexical containment as the property defines it (symbolic links are not followed by the reference normaliser); file-system calls of util/import.go are observed through a mechanical build-time redirection of ioutil.ReadFile/os.Open/os.Stat to recording wrappers; an error is always an admissible answer", tech="bounded exhaustive enumeration of inputs against an independent reference model (stack-based lexical path normaliser) plus observation of every file-system call",
   text="FileImportLocator.Resolve for every path of <= 5 (thorough 6) segments over {a, sub, .., ., '', a.b, ..a, 'a b'} (and of <= 3 segments over 10 "
        "segments with foreign separators and encodings: ..\\a, sub\\.., %2e%2e, ..;, NUL, ~) with optional leading and "
        "trailing slash x 7 spellings of the root (absolute, trailing slash, relative, ./, '.', nested with .., empty) over a file tree with sentinel "
        "files inside and outside the root (including a sibling directory whose name has the root as prefix): about 1.05 million cases quick; "
        "the same verdict through the interpreter's import statement for paths of <= 3-4 segments. Oracle: whatever is returned is the content of a "
        "file lexically inside the root, a lexically outside path yields an error, no path outside the root reaches a file-system call"),
 "C18": dict(engine="engine-B", also=["engine-A"], cat="exploration", ref="DESIGN.md 5, 7/C18", note="columns in bytes from 1; for comment tokens the reported position is that of the first content character; item sequences that do not lex into one token per item are skipped (counted)", tech="bounded exhaustive enumeration of token streams with generator-recorded offsets; line/column recomputed independently from the source text",
   text="every sequence of <= 4 items (thorough also 5) over {identifier, number, :=, (, quoted strings incl. multi-byte, raw multi-line string, "
        "# comments (LF, CR LF terminated, containing a lone CR, unterminated), /* */ comments incl. multi-line} x separators {space, LF, CRLF, tab, none}: every token's Pos/Lline/Lpos must equal the "
        "recorded offset and the recomputed line/column (2.8 million cases quick); planted errors after every prefix of <= 3-4 filler "
        "statements/comments: a stray ')' (parser.Error), `1 + \"a\"` (util.RuntimeError) and raise(...) with calls in its arguments (also over "
        "several lines) must be reported at the recomputed line/column, "
        "and statement separation must be unaffected by comments: 22 statements starting with every kind of term in every ordered pair x 13 comment "
        "placements around the line break must parse like the comment-free text; (Engine A) a main source calling an imported module whose statements "
        "have the same line numbers: every set of <= 2 break points over 8 (source, line) targets suspends the thread exactly at the break points on its path"),
 "C19": dict(engine="engine-B", cat="exploration", ref="DESIGN.md 5, 7/C19", note="number conversion is compared only where Go defines it exactly (integral values inside the parameter type's range); Bessel functions of order >= 2^31 are excluded as non-termination inside bridged Go code", tech="bounded exhaustive enumeration of function x argument-vector pairs with independently computed expected conversions",
   text="26 synthetic Go functions (identity per numeric kind int..uint64/uintptr/float32/float64, string, bool, interface, slice, variadic, (T,error) "
        "returning nil / non-nil, two results, no result, no arguments, panicking, nil-map write) and all 62 generated math.* adapters x every argument "
        "vector of length 0-3 (thorough 0-4) over a 24-value universe (null, booleans, 0, +-1, +-3, fractions, 255/256, 2^31, 2^53, 1e300, strings, "
        "lists, maps): no panic escapes, outcome is a value or a non-empty error, Go numbers arrive as float64, identity functions return "
        "float64(K(x)), a trailing Go error arrives as the error, panicking Go functions yield errors; math.* also through ECAL source with the "
        "same verdict and value; the 13 identity functions x 36 boundary numbers (every integer kind's limits and their neighbours, the float64 "
        "neighbours of 2^63 and 2^64); a trailing Go error in every position of the result list (only result, second, third), nil and non-nil; a Go "
        "error object never arrives as a value; one call site math[n](args) evaluated for every pair / triple of 8 function names chosen at run time; a result list stays unchanged by later bridged calls"),
 "C20": dict(engine="engine-B", cat="exploration", ref="DESIGN.md 5, 7/C20", note="the packed binary is started in-process through RunPackedBinary with the osArgs/osExit/osStderr/handleError package seams (overlay-added setter; the same variables the repository's pack tests use); the interpreter binary is represented by filler bytes", tech="exhaustive sweep over source-binary lengths modulo the scanner's buffer geometry x filler patterns x project trees, with an independent reading of the produced archive",
   text="source binaries of every length in [0, 2 scan periods] (thorough 3; period = 4096 + len(marker) + 11) x 5 filler patterns (no '#', all '#', "
        "'#' at block ends, partial markers straddling block boundaries, trailing newline) x 3 project trees (single file, nested directories with an "
        "imported library, empty file + binary file containing the marker, names starting with a dot + sibling directories + deep paths + entries named like the source and target binaries) packed with the real CLIPacker.Pack; oracle: archive at offset "
        "L+len(marker) holds every file byte-identical (read independently with archive/zip), RunPackedBinary reaches the exit callback with the "
        "entry file's value, imports see the packed library, never a panic or a fall-through to the normal command line; plus projects whose "
        "imported library has exactly s bytes for s in {2^k-1, 2^k, 2^k+1 : k = 9..17} + {100, 40000, 100000, 200000} x {compressible, incompressible} "
        "with its only definition at the very end; every history of 2 (thorough 3) packs of 5 projects of very different size into the SAME target; "
        "RunPackedBinary on the plain (marker-free) source binary hands over to the normal command line"),
 "C07": dict(engine="engine-B", cat="exploration", ref="DESIGN.md 5, 7/C07", note="a goroutine blocked on an abandoned channel is stable, so the goroutine count / dump after the call is not a timing oracle; evaluation of accepted trees is C06's corpus", tech="bounded exhaustive enumeration of token sequences, program mutations and byte strings, with the tree's own consumers (PrettyPrint, Validate) as shape oracle and a goroutine census for leaks",
   text="all token sequences of length <= 3 over every keyword and symbol of the lexer plus identifier/number/string/newline and three comment tokens incl. the empty block comment (64 tokens) and of length 4 "
        "over a 34-token subset (thorough: length 4 over all, 5 over the subset: 69 million parses); all single (thorough double) token deletions, "
        "duplications, swaps, stray bracket insertions and insertions / substitutions of 7 lexically invalid tokens of a 15-program corpus; all byte strings of length <= 2 and of length 3-4 over 40 bytes incl. "
        "NUL, ESC, DEL, invalid UTF-8. Oracle: terminates, exactly one of tree/error, errors positioned, no nil node, PrettyPrint and Validate do not "
        "panic, no lexer goroutine left blocked"),
 "C14": dict(engine="engine-B", cat="exploration", ref="DESIGN.md 5, 7/C14", note="the text of a value is fmt.Sprint of it; literals with unbalanced markers or ill-formed expressions are only required to yield a string without panic, endless loop or evaluation of substituted data; evaluation runs under a deterministic 3000-visit step budget (harness debugger counting VisitState calls)", tech="bounded exhaustive enumeration of string literals x environments against a one-pass reference function, with a counting harness function as side-effect oracle",
   text="all string literal bodies of <= 4 pieces (thorough 5, plus one more piece in the plain environment) over {{{, }}, {, }, a, space, x, tick(), 1+1, "
        "\\n, \\\"} in quoted and raw form, with x bound in turn to \"v\", \"{{tick()}}\", \"{{x}}\", \"}}\", \"{{\", \"{{1+1}}\" (300 000 evaluations "
        "quick): every literal yields a string without panic and within the step budget, tick() is called at most as often as it is written in the "
        "literal itself, raw strings come back byte-identical, and well-nested literals equal the one-pass reference (substituted text never rescanned); failing pieces raise(x) and x+1 must not "
        "evaluate the variable's content; re-entrant literals: func w(n) whose literal of 1-3 pieces over {<, >, space, {{n}}, {{w(n - 1)}}} interpolates "
        "a call to itself, n = 0..3, must equal the recursive reference (the literal node is re-entered while one of its evaluations is in progress); "
        "pieces include the escaped and the lone backslash (raw strings ending in a backslash); a raw string is never rejected; literals of <= 4 WHOLE "
        "expressions with a counting tick(): evaluated exactly once per occurrence, left to right; byte, octal and unicode escape sequences next to "
        "interpolation against strconv.Unquote; literals that create a variable in their first expression: {{y}} must equal {{y + 0}} and {{(y)}}"),
 "C08": dict(engine="engine-B", cat="exploration", ref="DESIGN.md 5, 7/C08", note="tree equality = node kind, token value, identifier flag, raw-vs-interpolating flag and child structure (positions, comments, blank lines ignored); four recorded findings (see known_findings.json) are pinned by the repository's own tests or need a redesign of comment placement", tech="bounded exhaustive enumeration of parseable programs with the round trip parse -> print -> parse -> print as oracle",
   text="every binary operator nested under every other on either side with and without parentheses, prefix operators on every operand and over every "
        "parenthesised pair, inside calls and index expressions (thorough: all operator triples in 5 parenthesisations); a 34-program corpus covering "
        "every statement kind, each nested in every block kind, with a /* */, #, multi-line and EMPTY comment inserted at every token boundary; blank "
        "lines (1-2, with comments) between 13 statements that contain percent signs, template delimiters and backslashes; comments in the "
        "plain positions between/after top-level statements; lists and maps of 0-7 entries; sinks with every attribute subset; string literals over 13 "
        "pieces (quotes, escapes, newlines, {{ }}, multi-byte) of length <= 3-4 in the four quoting forms; tool.FormatFiles on a directory tree. "
        "Oracle: printing succeeds, the printed text parses to an equal tree, printing again gives the same text, unparseable files are left alone"),
 "C01": dict(engine="engine-B", also=["engine-A"], cat="exploration", ref="DESIGN.md 5, 7/C01", note="'an equal value' = Go equality for scalars, deep equality for lists and maps; event states hold ECAL values; left open: a rule suppressing itself, regular expressions against a NULL state value, wildcard or empty segments inside an event kind; the processor part uses one real worker (the outcome is schedule independent)", tech="bounded exhaustive enumeration of rule sets x events x event histories against an independent reference matcher; breadth-first enumeration of event histories for the hidden trigger-cache state",
   text="(1) RuleIndex.Match / IsTriggering for single rules with every kind pattern over {a, b, *} of length <= 2 (thorough 3) x every state pattern over "
        "two keys with required values {absent, NULL, 1, \"x\", regexp, list, map}, rules with two (overlapping / duplicate) kind patterns, pairs of rules "
        "sharing a leaf and pairs with different patterns, against every event kind of length 1-3 x 64 event states (780 000 cases quick); (2) leaf "
        "capacity: 1..130 state rules on one kind, every rule probed; (3) the real Processor: 10 rule sets with scope requirements, suppression "
        "lists, duplicate patterns and state patterns x 5 cascade scopes x every history of <= 2 (thorough 3) events with same / different names "
        "and kinds: the rules fired per event must equal the reference set (matching, in scope, unsuppressed), each exactly once, and a triggering "
        "event is never skipped; (4) the scope rule alone: every requirement path against every set of <= 3 scope definitions over a 3-level "
        "name tree, against a lexical reference; (5) purity: a reflective snapshot of the rule index (unexported fields, spare slice capacity) is "
        "unchanged by Match / IsTriggering, which several workers call without a lock; (6) Engine A: two threads adding events (same / different "
        "names and kinds) to a running processor under every schedule with <= 1-2 preemptions; (7) the scope decision reached from ECAL: 9 sinks with "
        "scopematch x 81 scope maps given as fourth argument of addEventAndWait / addEvent; (8) rule sets that change over a restart: no rule or one "
        "rule (9 kind patterns with wildcards in every position), events of 5 kinds, Finish, a second rule, Start, the same events (90 histories); state "
        "patterns that are present but empty (statematch {}) against events without state"),
 "C03": dict(engine="engine-B", cat="exploration", ref="DESIGN.md 5.2, 7/C03, 9a", note="reference semantics encode only what ecal.md and the property statement define; Unspecified (counted, not compared): zero divisors, % with a negative operand or a divisor below 1 (fractional operands are compared: remainder of the truncated operands), ordering across kinds, equality/membership of containers, like/hasPrefix/hasSuffix on non-strings, membership in non-lists; left-to-right operand evaluation", tech="bounded exhaustive enumeration of expression trees against an independent reference evaluator that works on the generator's own trees (precedence from the stated table, not from the parser)",
   text="all x op y over 23 operands (numbers incl. 0 and fractions, strings incl. interpolating literals, booleans, null, variables, call results, "
        "list elements, map fields, list literals incl. the empty list) x 19 binary operators; prefix -, +, "
        "not on either operand and over the parenthesised pair; all x op1 y op2 z unparenthesised (reference tree built by precedence climbing over "
        "the stated table) and in both parenthesisations over 7 operands of every kind; each in 2-3 layouts (spaces, newline after every operator, "
        "redundant parentheses): 950 000 evaluations quick, 490 000 with a defined result (thorough adds all operator triples over 4 operands). "
        "Oracle: value equality (float64 bit-equal) or a runtime error of the stated type naming the offending operand; re-evaluation: every operator parsed "
        "ONCE and evaluated for sequences of operand pairs (zero divisors, wrong kinds, malformed patterns in between) must give what a fresh parse gives"),
 "C04": dict(engine="engine-B", cat="exploration", ref="DESIGN.md 5.2, 7/C04, 9a", note="observation = ordered trace of a harness mark() function plus type/detail/data of the final error; whether otherwise runs after a try block left by return/break/continue is open (both readings accepted, the return/break/continue must survive); left open: exits from inside finally, range with contradictory or missing step, control statements leaving the program", tech="bounded exhaustive enumeration of programs (full product over exit kinds x handler shapes x clauses x contexts) against a small-step reference interpreter over the generator's own statement trees",
   text="every try statement = body exit kind (fall through, raise A, raise B, runtime error, return, break, continue) x 8 handler shapes (none, "
        "bare, `e`, \"A\", \"A\" as e, \"A\",\"B\", \"A\" then bare, \"B\" then \"A\" as e) x otherwise (absent, marker, raising) x finally x handler "
        "blocks that raise / return, placed at top level, in loop and function bodies and inside another try's body / except / otherwise "
        "(5 400 programs); every loop kind (range(a,b[,s]) for a,b in 1..3, s in {none,1,2,-1}; lists; condition) x exit statement (none, break, "
        "continue, raise, return) at every iteration x nesting; if/elif/else chains x all truth assignments, and chains in which any guard raises / "
        "fails at run time (at top level and inside try/except/otherwise/finally); a single-variable loop over a map that keeps the previous [key, value] entry; a return that passes through a finally / except block "
        "which calls the same function again (4 shapes x depth 0-4). "
        "Oracle: marker trace and final "
        "error (type, detail, data) equal the reference"),
 "C06": dict(engine="engine-B", cat="exploration", ref="DESIGN.md 5, 7/C06", note="excluded as non-terminating by specification: sleep with a positive number, valid trigger registrations; evaluation runs under a deterministic step budget (harness debugger counting node visits); a panic on a worker goroutine kills the worker subprocess and is attributed to the case in progress through a side file", tech="bounded exhaustive enumeration of ill-typed and boundary-valued programs with 'no panic reaches the host' as oracle (recover in the evaluating goroutine plus subprocess death for worker goroutines), plus try/except catchability of every raised error",
   text="every binary and prefix operator x U^2 / U over a 20-value universe (null, booleans, 0, +-1, fractions, 1e300, strings, lists, maps, a function) as "
        "literals and through variables; every built-in function x every argument vector of length 0-3 (thorough 0-4); loop / if / new / default "
        "parameter / destructuring / mutex / interpolation forms over U^2; index and field reads, writes, nested accesses, map literal keys over "
        "U^2 / U^3 and boundary indices; every sink attribute x U; every statematch value x event state value through the real processor; a failing "
        "sink next to a second sink and a second event; every token sequence (C07 generator, length <= 3 full alphabet, 4-5 reduced) that the parser "
        "accepts, validated and evaluated (2 million evaluations quick). Oracle: no panic, no killed worker; an error raised by a statement is "
        "catchable by try/except; a failing sink does not fail its caller. The universe includes NaN and +-Inf; built-in arguments are also reached "
        "through a call, an index, a field and parentheses (argument expression shapes); caught errors whose trace runs through commented calls; a "
        "malformed regular expression and a map holding a list are in the universe, every failing case is evaluated a second time inside try/except; "
        "every field of a caught error object (type, detail, data, trace, line, ...) as operand of ==, in, len, concat, indexing, for; 15 kinds of failure directly in a sink body, collected through addEventAndWait and used; every quoted string literal body of <= 5 (thorough 6) pieces over {{{, }}, {, }, x, 1/0, space, a} at top level, inside try/except and in a sink body (closing markers before opening ones, unbalanced braces, failing substitutions); "
        "a list that contains itself is rendered in a worker process of its own (recorded finding: unrecoverable stack overflow)"),
 "C05": dict(engine="engine-B", cat="exploration", ref="DESIGN.md 5.2, 7/C05, 9a", note="reading an undefined name yields NULL (pinned by the suite); every block is entered once per program; reads of the argument of add/del after the call are left open; a failing statement inside try has no effect", tech="bounded exhaustive enumeration of programs and container operation sequences against boring reference models written in Go (environment chain, closures as Go values, slice/map model)",
   text="scoping: global definition x outer block kind (if, for, function, mutex, try) x outer statement (none, assignment, let) x inner block kind x inner "
        "statement x late let, probed at three levels (900 programs) against an environment-chain model; functions: parameters x 5 default kinds x 0-3 "
        "arguments, closures, recursion with locals, lexical-not-dynamic resolution, fresh locals, no leaks, first-class use; objects: template "
        "properties, init arguments, this, independent instances, single / multiple / two-level inheritance with super constructors; value vs reference "
        "semantics for all kinds through names and parameters, nested paths, write-then-read for number and string keys; containers: every sequence of "
        "<= 3 (thorough 4) operations over 14 list/map operations on two aliased names followed by 10 probes, against a Go slice/map model; generated "
        "inheritance shapes (1-3 super templates x with/without own constructor x call order, super[i] by position); varsScope.GetValue / SetValue with "
        "every dotted container path of <= 3 (thorough 4) segments over {k, z, n, a, x, 0, 1, 2, -1, -3, 5} on a nested list/map structure: reads of "
        "existing paths, write-then-read, frame condition over all other paths, a failing write changes nothing, never a panic; maps holding a "
        "number key and the equally spelled string key; names local to a try block are not visible in its except / otherwise / finally blocks; every evaluation of a list / map literal yields a new container"),
}

ENGINES = [
 {"name": "engine-A", "path": "mc/vsched, mc/instr, mc/cmd/mcsched",
  "kind_free_text": "hand-written controlled scheduler for Go (baton passing over shimmed sync primitives, go statements, sleeps, "
     "random picks and accesses to shared mutable variables; instrumentation derived mechanically from /repo's working tree and "
     "applied with go build -overlay) + stateless depth-first exploration of all schedules within a preemption bound and a "
     "free-choice bound, run on the real ecal packages"},
 {"name": "engine-B", "path": "mc/cmd/mcseq, mc/ref",
  "kind_free_text": "bounded exhaustive enumeration of inputs / programs / operation sequences / histories over explicit "
     "alphabets, each run through the real parser, interpreter, engine and tools and compared with independent reference models; "
     "explicit-state breadth-first search over real objects for the stateful interfaces"},
]

def main():
    props = [json.loads(l) for l in open('/verif/properties.jsonl')]
    man = {
     "version": 1,
     "setup_cmd": "./setup.sh",
     "hooks": {
      "guard": "verif",
      "enable": "no hooks are committed to /repo: bin/check derives the instrumentation mechanically from /repo's current working "
                "tree (mc/instr: go/ast + go/types) and applies it with `go build -overlay` (virtual package "
                "github.com/krotik/ecal/zzverif/vsched replaces sync, time.Sleep/Now, rand, go statements, map ranges and adds "
                "Touch points on shared mutable variables; export seams under mc/seams are overlay-added files)",
      "baseline_off_cmd": "cd /repo && GOFLAGS=-mod=mod GOPROXY=off GOSUMDB=off GOTOOLCHAIN=local go test -vet=off -count=1 ./...",
      "source_commits": [],
      "add_only": True,
     },
     "engines": [],
     "checks": [],
     "notes": "bin/check <id> --tier quick|thorough [--replay file]; exit 0 / 1 (at least one confirmed VIOLATION line) / 2 (harness "
              "error and no violation). Known findings and fixed defects: known_findings.json. Design: DESIGN.md.",
     "not_applicable": [],
    }
    for e in ENGINES:
        e = dict(e)
        e["serves_properties"] = sorted(p for p, c in CHECKS.items() if c["engine"] == e["name"] or e["name"] in c.get("also", []))
        man["engines"].append(e)
    for p in props:
        pid = p["id"]
        c = CHECKS.get(pid)
        if c is None:
            man["not_applicable"].append({"property_id": pid,
              "reason": "check not finished in this session (designed in DESIGN.md section 7; not claimed until it runs green on the unchanged tree)"})
            continue
        man["checks"].append({
          "property_id": pid,
          "quick_cmd": "./bin/check %s --tier quick" % pid,
          "thorough_cmd": "./bin/check %s --tier thorough" % pid,
          "evidence_file": "/verif/evidence/%s.json" % pid,
          "replay_cmd_template": "./bin/check %s --replay {path}" % pid,
          "engine": c["engine"],
          "level_claimed": {"category": c["cat"], "text": c["text"], "design_ref": c["ref"]},
          "level_note": c["note"],
          "technique": c["tech"],
        })
    json.dump(man, open('/verif/MANIFEST.json', 'w'), indent=1)
    print("checks:", [c["property_id"] for c in man["checks"]])

main()
