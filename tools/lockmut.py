#!/usr/bin/env python3
"""tools/lockmut.py list|run [n-th only]  — systematic lock-deletion campaign.

For every (function, lock receiver) pair in the instrumented packages of /repo
one mutant is made: every statement `R.Lock()`, `R.Unlock()`, `defer R.Unlock()`
(and the RLock/RUnlock forms) of that function is deleted. The mutant is applied
to /repo's working tree, the quick checks of the properties that exercise the
package are run, and the tree is restored. Results go to
/verif/seeded/lock-deletion/results.json (one record per mutant)."""
import re,sys,os,subprocess,json,glob,time
PKGS={"engine/pool":["C09"],"engine/pubsub":["C02"],"engine":["C10","C02"],"scope":["C11","C15"],
      "interpreter":["C12","C15","C16"],"util":["C11"],"parser":["C13"],"stdlib":["C11"]}
FILEPROPS={"interpreter/debug.go":["C15","C16"],"interpreter/rt_general.go":["C13","C11"],"interpreter/rt_statements.go":["C12"],
           "engine/pool/threadpool.go":["C09","C12"],"engine/monitor.go":["C02","C10"],"engine/taskqueue.go":["C10","C02"]}
LOCK=re.compile(r'^\s*(defer\s+)?([A-Za-z_][\w\.\(\)\*]*)\.(Lock|Unlock|RLock|RUnlock)\(\)\s*$')
def mutants():
    out=[]
    for pkg in PKGS:
        for f in sorted(glob.glob('/repo/%s/*.go'%pkg)):
            if f.endswith('_test.go'): continue
            lines=open(f).read().split('\n')
            fn=None; start=0
            groups={}
            for i,l in enumerate(lines):
                m=re.match(r'^func (\([^)]*\)\s*)?(\w+)',l)
                if m: fn=m.group(2)
                m=LOCK.match(l)
                if m and fn:
                    if m.group(2).endswith('cond.L') or '.L' in m.group(2): continue # condition-variable protocol, not a data lock
                    groups.setdefault((fn,m.group(2)),[]).append(i)
            for (fn,recv),idx in sorted(groups.items()):
                kinds=set(LOCK.match(lines[i]).group(3) for i in idx)
                if not (kinds & {'Lock','RLock'}): continue
                out.append(dict(pkg=pkg,file=os.path.relpath(f,'/repo'),func=fn,recv=recv,lines=[i+1 for i in idx]))
    return out
def apply(m):
    p='/repo/'+m['file']; lines=open(p).read().split('\n')
    for ln in m['lines']:
        lines[ln-1]=re.sub(r'\S.*$','_ = 0 // lock statement deleted',lines[ln-1])
    open(p,'w').write('\n'.join(lines))
def main():
    ms=mutants()
    if sys.argv[1]=='list':
        for i,m in enumerate(ms): print(i,m['file'],m['func'],m['recv'],m['lines'])
        print(len(ms),'mutants'); return
    os.makedirs('/verif/seeded/lock-deletion',exist_ok=True)
    resf='/verif/seeded/lock-deletion/results.json'
    res=json.load(open(resf)) if os.path.exists(resf) else []
    done={(r['file'],r['func'],r['recv']) for r in res}
    sel=[int(x) for x in sys.argv[2:]] if len(sys.argv)>2 else range(len(ms))
    for i in sel:
        m=ms[i]
        if (m['file'],m['func'],m['recv']) in done: continue
        if subprocess.run(['git','-C','/repo','status','--porcelain'],capture_output=True,text=True).stdout.strip():
            print('repo not clean'); sys.exit(2)
        apply(m)
        rec=dict(m); rec['checks']={}; rec['detected_by']=None
        try:
            b=subprocess.run('cd /repo && GOFLAGS=-mod=mod GOPROXY=off GOSUMDB=off GOTOOLCHAIN=local go build ./%s/'%m['pkg'],shell=True,capture_output=True,text=True)
            if b.returncode!=0:
                rec['detected_by']='does-not-compile'
            else:
                for prop in FILEPROPS.get(m['file'],PKGS[m['pkg']]):
                    t=time.time()
                    r=subprocess.run(['/verif/bin/check',prop,'--tier','quick'],capture_output=True,text=True,cwd='/verif')
                    key=[l.strip() for l in r.stdout.split('\n') if l.startswith('  key:')][:1]
                    rec['checks'][prop]=dict(rc=r.returncode,wall=round(time.time()-t,1),key=key[0][:200] if key else '')
                    if r.returncode==1:
                        rec['detected_by']=prop; break
        finally:
            subprocess.run(['git','-C','/repo','checkout','--','.'])
        res.append(rec); json.dump(res,open(resf,'w'),indent=1)
        print(i,m['file'],m['func'],m['recv'],'->',rec['detected_by'],flush=True)
main()
